/-
M2 — model of cache/disk/casblob/casblob.go: header (a zstd skippable frame), `readHeader`,
`WriteAndClose` (zstd mode), the three readers.

* a file is its byte string (`Bytes = List Nat`, every element < 256 in files the code produces);
* Go's partial operations (slice index, division, `make` with a bad length) are explicit `panic`
  outcomes, never totalised;
* the zstd codec is a parameter (`Codec`); its laws are hypotheses of the theorems
  (`Codec.Lawful`), a concrete toy instance (`BR.CasBlob.Toy`) shows they are satisfiable and is
  what the correspondence harness plugs into the real Go code.
-/
namespace BR.CasBlob

abbrev Bytes := List Nat

inductive Res (α : Type) where
  | ok (a : α)
  | err (code : Nat)
  | panic
deriving Repr, DecidableEq

/-! ### little-endian integers -/

def leN : Nat → Nat → Bytes
  | 0, _ => []
  | n + 1, v => (v % 256) :: leN n (v / 256)

def fromLE : Bytes → Nat
  | [] => 0
  | b :: bs => b + 256 * fromLE bs

def two63 : Nat := 9223372036854775808
def two64 : Nat := 18446744073709551616

def le32 (v : Nat) : Bytes := leN 4 v
/-- int64 in two's complement -/
def le64i (v : Int) : Bytes := leN 8 (v % (two64 : Int)).toNat
def toI64 (n : Nat) : Int := if n < two63 then (n : Int) else (n : Int) - (two64 : Int)
def wrap64 (x : Int) : Int := (x + (two63 : Int)) % (two64 : Int) - (two63 : Int)

/-! ### header -/

structure Header where
  uncompressedSize : Int     -- int64
  compression : Nat          -- uint8: 0 identity, 1 zstandard
  chunkSize : Nat            -- uint32
  chunkOffsets : List Int    -- int64 each
deriving Repr, DecidableEq

def magic : Nat := 0x184D2A50
def chunkTableOffset : Nat := 29
def defaultChunkSize : Nat := 1048576

/-- `header.size()` -/
def Header.size (h : Header) : Int := 29 + 8 * (h.chunkOffsets.length : Int)
/-- `header.frameSize()` (uint32 arithmetic) -/
def Header.frameSize (h : Header) : Nat := (29 + 8 * h.chunkOffsets.length - 8) % 4294967296

/-- `header.write` -/
def encodeHeader (h : Header) : Bytes :=
  le32 magic ++ le32 h.frameSize ++ le64i h.uncompressedSize ++ [h.compression % 256] ++
    le32 h.chunkSize ++ le64i (h.chunkOffsets.length : Int) ++ h.chunkOffsets.flatMap le64i

def u32At (f : Bytes) (off : Nat) : Nat := fromLE ((f.drop off).take 4)
def i64At (f : Bytes) (off : Nat) : Int := toI64 (fromLE ((f.drop off).take 8))
def u8At (f : Bytes) (off : Nat) : Nat := fromLE ((f.drop off).take 1)

def readOffsets (f : Bytes) (n : Nat) : List Int := (List.range n).map (fun i => i64At f (29 + 8 * i))

/-- the loop `prevOffset := -1; for … if off <= prev { error }` -/
def increasingFrom : Int → List Int → Bool
  | _, [] => true
  | prev, x :: xs => if x ≤ prev then false else increasingFrom x xs

def lastOr (d : Int) : List Int → Int
  | [] => d
  | [x] => x
  | _ :: xs => lastOr d xs

/-- number of chunks a blob of `size` bytes has with chunks of `cs` bytes -/
def numChunksFor (size : Int) (cs : Nat) : Int := (size + (cs : Int) - 1) / (cs : Int)

/-- `readHeader`: error codes  1 file too small, 2 magic, 3 fewer than two offsets,
    4 frame size, 5 table does not fit in the file, 6 not increasing, 7 last offset ≠ file size,
    8 chunk size / chunk count inconsistent with the logical size (zstd blobs). -/
def parseHeader (file : Bytes) : Res Header :=
  let fsz : Int := file.length
  if fsz ≤ 45 then .err 1
  else if u32At file 0 ≠ magic then .err 2
  else
    let frameSize := u32At file 4
    let usize := i64At file 8
    let comp := u8At file 16
    let cs := u32At file 17
    let numOffsets := i64At file 21
    if numOffsets < 2 then .err 3
    else if numOffsets > (fsz - 29) / 8 then .err 5
    else if (frameSize : Int) ≠ numOffsets * 8 + 21 then .err 4
    else
      let offs := readOffsets file numOffsets.toNat
      if !increasingFrom (-1) offs then .err 6
      else if lastOr (-1) offs ≠ fsz then .err 7
      else if comp == 1 && (cs == 0 || usize ≤ 0 || numChunksFor usize cs ≠ numOffsets - 1) then .err 8
      else .ok { uncompressedSize := usize, compression := comp, chunkSize := cs, chunkOffsets := offs }

/-! ### codec parameter -/

structure Codec where
  /-- `EncodeAll`: one frame -/
  enc : Bytes → Bytes
  /-- `DecodeAll` of a byte string (one or more frames) -/
  decAll : Bytes → Option Bytes
  /-- streaming decoder over concatenated frames: bytes produced, and whether the stream ended
      cleanly (`false`: a decode error was reported after those bytes) -/
  decStream : Bytes → Bytes × Bool

/-- `f` is a frame with content `c` -/
def Codec.IsFrame (C : Codec) (f c : Bytes) : Prop :=
  f ≠ [] ∧ C.decAll f = some c ∧ ∀ r, C.decStream (f ++ r) = (c ++ (C.decStream r).1, (C.decStream r).2)

structure Codec.Lawful (C : Codec) : Prop where
  enc_frame : ∀ x, C.IsFrame (C.enc x) x
  stream_nil : C.decStream [] = ([], true)

/-! ### readers -/

def Res.bind {α β} : Res α → (α → Res β) → Res β
  | .ok a, f => f a
  | .err e, _ => .err e
  | .panic, _ => .panic

instance : Monad Res where
  pure := .ok
  bind := Res.bind

/-- Go slice indexing `l[i]`: out of range panics -/
def idx (l : List Int) (i : Nat) : Res Int :=
  match l[i]? with
  | some v => .ok v
  | none => .panic

/-- Go `make([]byte, n)`: a negative length panics -/
def makeLen (n : Int) : Res Nat := if n < 0 then .panic else .ok n.toNat

/-- common part of the zstd-compressed branch of both readers: which chunk, the remainder inside
    it, and the file position the reader seeks to.  error 12: offset beyond the last chunk. -/
def locate (h : Header) (offset : Int) : Res (Nat × Nat × Nat) :=
  if h.chunkSize = 0 then .panic    -- integer divide by zero
  else
    let chunkNum := (offset / (h.chunkSize : Int)).toNat
    let rem := (offset % (h.chunkSize : Int)).toNat
    if chunkNum + 1 ≥ h.chunkOffsets.length then .err 12
    else if chunkNum > 0 then do
      let p ← idx h.chunkOffsets chunkNum
      pure (chunkNum, rem, p.toNat)
    else pure (chunkNum, rem, h.size.toNat)

/-- the first (partial) chunk: `make`, `ReadFull`, `DecodeAll`, `[remainder:]`.
    errors: 13 short read, 14 does not decode, 15 remainder beyond the decoded chunk. -/
def firstChunk (C : Codec) (file : Bytes) (h : Header) (chunkNum rem pos : Nat) : Res (Bytes × Nat) := do
  let a ← idx h.chunkOffsets chunkNum
  let b ← idx h.chunkOffsets (chunkNum + 1)
  let clen ← makeLen (b - a)
  let first := (file.drop pos).take clen
  if first.length < clen then .err 13
  else
    match C.decAll first with
    | none => .err 14
    | some chunk => if rem > chunk.length then .err 15 else pure (chunk.drop rem, clen)

/-- `GetUncompressedReadCloser`: the bytes the returned reader yields, and whether it ends with
    a clean EOF.  errors: 10 size mismatch, 11 unsupported compression, 12–15 see above. -/
def readRaw (C : Codec) (file : Bytes) (expectedSize offset : Int) : Res (Bytes × Bool) := do
  let h ← parseHeader file
  if expectedSize ≠ -1 ∧ h.uncompressedSize ≠ expectedSize then .err 10
  else if h.compression = 0 then
    pure (file.drop (h.size.toNat + (if offset > 0 then offset.toNat else 0)), true)
  else if h.compression ≠ 1 then .err 11
  else do
    let (chunkNum, rem, pos) ← locate h offset
    if rem = 0 then pure (C.decStream (file.drop pos))
    else do
      let (tail, clen) ← firstChunk C file h chunkNum rem pos
      if chunkNum + 2 = h.chunkOffsets.length then pure (tail, true)
      else
        let r := C.decStream (file.drop (pos + clen))
        pure (tail ++ r.1, r.2)

/-- `GetLegacyZstdReadCloser` on the rest of a raw file: one stream of frames produced by the
    streaming encoder; modelled as a single frame. -/
def legacyZstd (C : Codec) (raw : Bytes) : Bytes := C.enc raw

/-- `GetZstdReadCloser`: the (compressed) bytes the returned reader yields. -/
def readZstd (C : Codec) (file : Bytes) (expectedSize offset : Int) : Res Bytes := do
  let h ← parseHeader file
  if expectedSize ≠ -1 ∧ h.uncompressedSize ≠ expectedSize then .err 10
  else if h.compression = 0 then
    pure (legacyZstd C (file.drop (h.size.toNat + (if offset > 0 then offset.toNat else 0))))
  else if h.compression ≠ 1 then .err 11
  else if offset = 0 then pure file
  else do
    let (chunkNum, rem, pos) ← locate h offset
    if rem = 0 then pure (file.drop pos)
    else do
      let (tail, clen) ← firstChunk C file h chunkNum rem pos
      if chunkNum + 2 = h.chunkOffsets.length then pure (C.enc tail)
      else pure (C.enc tail ++ file.drop (pos + clen))

/-- `ExtractLogicalSize` on the first bytes of a stream. errors: 20 short, 21 non-positive -/
def extractLogicalSize (stream : Bytes) : Res Int :=
  if stream.length < 16 then .err 20
  else
    let s := i64At stream 8
    if s ≤ 0 then .err 21 else .ok s

/-! ### writer (`WriteAndClose`, t = Zstandard) -/

/-- the lengths `ReadFull` is asked for, chunk by chunk: `size / cs` full chunks and the remainder -/
def wantLens (size : Nat) (cs : Nat) : List Nat :=
  List.replicate (size / cs) cs ++ (if size % cs > 0 then [size % cs] else [])

/-- the chunk loop's reads: each `ReadFull` either fills its chunk or fails and stops the loop -/
def fillChunks : List Nat → Bytes → List Bytes × Bool
  | [], _ => ([], true)
  | w :: ws, d =>
    if d.length ≥ w then
      let r := fillChunks ws (d.drop w)
      (d.take w :: r.1, r.2)
    else ([], false)

/-- offsets table for frames of the given lengths starting at `base` (one entry per frame plus
    the end offset) -/
def offsetsFrom : Int → List Nat → List Int
  | base, [] => [base]
  | base, l :: ls => base :: offsetsFrom (base + l) ls

inductive WErr where
  | badSize       -- size ≤ 0
  | shortRead     -- "only managed to read"
  | tooMuch       -- "expected … but got at least … more"
  | trailing      -- "failed to read chunk of size" (trailing bytes or reader error)
  | hash          -- "checksums don't match"
deriving Repr, DecidableEq

/-- what the caller's reader delivers: `data`, then EOF (`fault = false`) or an error -/
structure Stream where
  data : Bytes
  fault : Bool

structure WriteResult where
  /-- successive contents of the file after each write call (the last one is what is on disk
      when `WriteAndClose` returns) -/
  images : List Bytes
  result : Except WErr Int

def zeroTableHeader (size : Int) (cs : Nat) (numOffsets : Nat) : Header :=
  { uncompressedSize := size, compression := 1, chunkSize := cs,
    chunkOffsets := (29 : Int) :: List.replicate (numOffsets - 1) 0 }

/-- images produced while appending the frames one by one -/
def appendImages (base : Bytes) : List Bytes → List Bytes
  | [] => []
  | f :: fs => (base ++ f) :: appendImages (base ++ f) fs

def writeAndClose (C : Codec) (H : Bytes → String) (cs : Nat) (s : Stream) (size : Int) (hash : String) :
    WriteResult :=
  if size ≤ 0 then { images := [], result := .error .badSize }
  else
    let want := wantLens size.toNat cs
    let hdr0 := encodeHeader (zeroTableHeader size cs (want.length + 1))
    let filled := fillChunks want s.data
    let frames := filled.1.map C.enc
    let imgs := hdr0 :: appendImages hdr0 frames
    if !filled.2 then { images := imgs, result := .error .shortRead }
    else
      let extra := s.data.length - size.toNat
      if extra ≥ defaultChunkSize then { images := imgs, result := .error .tooMuch }
      else if extra > 0 || s.fault then { images := imgs, result := .error .trailing }
      else if H filled.1.flatten ≠ hash then { images := imgs, result := .error .hash }
      else
        let offs := offsetsFrom (29 + 8 * ((want.length : Int) + 1)) (frames.map List.length)
        let final := encodeHeader { uncompressedSize := size, compression := 1, chunkSize := cs, chunkOffsets := offs }
          ++ frames.flatten
        { images := imgs ++ [final], result := .ok (final.length : Int) }

end BR.CasBlob
