/-
M7 — model of cache/disk/findmissing.go: batched local lookups under the index lock, back-end checks
through slot pointers by a worker pool (any order), order-preserving compaction, fail-fast.
-/
namespace BR.FindMissing

structure Digest where
  hash : String
  size : Int
deriving DecidableEq, Repr

def emptySha256 : String := "e3b0c44298fc1c149afbf4c8996fb92427ae41e4649b934ca495991b7852b855"

/-- `isSizeMismatch` -/
def isSizeMismatch (requested found : Int) : Bool := requested > -1 && found > -1 && requested != found

/-- the index at some moment: logical size of the CAS entry with that hash, if any -/
abbrev Index := String → Option Int

/-- `findMissingLocalCAS` for one digest -/
def localFound (idx : Index) (d : Digest) : Bool :=
  (d.size == 0 && d.hash == emptySha256) ||
    (match idx d.hash with
     | some sz => !isSizeMismatch d.size sz
     | none => false)

/-- back end: `none` = no proxy configured; otherwise its `Contains` answer for a digest: `none` =
absent, `some sz` = present with reported size `sz` (−1 when the back end cannot tell the size) -/
abbrev Proxy := Option (Digest → Option Int)

/-- when the back end's answer counts as "present" (`containsWorker`): the reported size does not
contradict the stated size (digests larger than `max_proxy_blob_size` are never sent to it) -/
def proxyHas (has : Digest → Option Int) (d : Digest) : Bool :=
  match has d with
  | none => false
  | some sz => !isSizeMismatch d.size sz

/-- is the digest still missing after the local lookup (index `idx`) and the back-end check? -/
def stillMissing (idx : Index) (proxy : Proxy) (maxProxy : Int) (d : Digest) : Bool :=
  !localFound idx d &&
    (match proxy with
     | none => true
     | some has => decide (d.size > maxProxy) || !proxyHas has d)

/-- the batch loop: chunk `i` is looked up against the index as it is at that moment (`idxAt i`) -/
def go (batch : Nat) (idxAt : Nat → Index) (proxy : Proxy) (maxProxy : Int) : Nat → Nat → List Digest → List Digest
  | 0, _, _ => []
  | _ + 1, _, [] => []
  | fuel + 1, i, ds =>
    (ds.take batch).filter (stillMissing (idxAt i) proxy maxProxy) ++
      go batch idxAt proxy maxProxy fuel (i + 1) (ds.drop batch)

/-- `FindMissingCasBlobs` -/
def findMissing (batch : Nat) (idxAt : Nat → Index) (proxy : Proxy) (maxProxy : Int) (ds : List Digest) : List Digest :=
  go batch idxAt proxy maxProxy ds.length 0 ds

/-- `filterNonNil` -/
def filterNonNil {α} : List (Option α) → List α
  | [] => []
  | none :: xs => filterNonNil xs
  | some x :: xs => x :: filterNonNil xs

/-- the workers' writes `*(req.digest) = nil` through slot pointers, applied in the order `order` -/
def applyWrites {α} (order : List Nat) (slots : List (Option α)) : List (Option α) :=
  order.foldl (fun s i => s.set i none) slots

/-- fail-fast verdict used by the ActionResult dependency check: a miss iff some digest is missing -/
def failFastMiss (batch : Nat) (idxAt : Nat → Index) (proxy : Proxy) (maxProxy : Int) (ds : List Digest) : Bool :=
  !(findMissing batch idxAt proxy maxProxy ds).isEmpty

end BR.FindMissing
