import BR.Gen.ConfigTables
/-!
M12 — model of the two configuration front ends (config/config.go `get`/`newFromArgs` for flags and
environment variables, `NewFromYaml` for YAML) and of `validateConfig`.

A *setting* is named by the (section, key) of its command-line flag (`("s3","bucket")` is
`--s3.bucket`, `("", "dir")` is `--dir`).  The YAML path of the same setting is `<section>.<key>`
with the sections `s3`/`azblob` spelled `s3_proxy`/`azblob_proxy` (README).  An `Assign` lists the
settings that are given explicitly, with typed values.

The field tables (`FD`) are *computed* from the regenerated tables in `BR.Gen.config`: which flag
feeds which `Config` field through which `ctx` accessor, which yaml key feeds it, both defaults.
-/
namespace BR.Config
open BR.Gen.config

inductive Val where
  | s (v : String)
  | i (v : Int)
  | b (v : Bool)
  | d (v : Int)        -- time.Duration in nanoseconds
  | nil                -- absent pointer / no such setting
deriving DecidableEq, Repr, Inhabited

abbrev Key := String × String
abbrev Assign := List (Key × Val)

def Assign.get (a : Assign) (k : Key) : Option Val := (a.find? (fun e => e.1 == k)).map (·.2)
def Assign.given (a : Assign) (k : Key) : Bool := (a.get k).isSome

/-! ### the flag side -/

def flagRow (k : Key) : Option (String × String × String × String × Int × Nat) :=
  flags.find? (fun r => r.1 == k.1 && r.2.1 == k.2)

def flagKind (k : Key) : String :=
  match flagRow k with
  | some r => r.2.2.1
  | none => ""

def flagDefault (k : Key) : Val :=
  match flagRow k with
  | some (_, _, kind, ds, di, _) =>
    if kind == "String" then .s ds else if kind == "Bool" then .b (di != 0)
    else if kind == "Duration" then .d di else .i di
  | none => .nil

/-- does a typed value fit a flag of this kind? -/
def kindMatches (kind : String) : Val → Bool
  | .s _ => kind == "String"
  | .i _ => kind == "Int" || kind == "Int64"
  | .b _ => kind == "Bool"
  | .d _ => kind == "Duration"
  | .nil => false

/-- `ctx.<acc>(name)` on a flag of kind `kind` holding `v`: urfave/cli looks the flag up by name and
parses the string form of its value with the accessor's own parser.  `Int`/`Int64` read each
other's flags; `Duration` on an integer flag fails to parse ("3600" has no unit) and yields 0. -/
def ctxGet (acc kind : String) (v : Val) : Val :=
  match v with
  | .s x => if (acc == "String" || acc == "URL") && kind == "String" then .s x else .nil
  | .i x =>
    if (acc == "Int" || acc == "Int64" || acc == "IntPtr") && (kind == "Int" || kind == "Int64") then .i x
    else if acc == "Duration" && (kind == "Int" || kind == "Int64") then .d 0
    else .nil
  | .b x => if acc == "Bool" && kind == "Bool" then .b x else .nil
  | .d x => if acc == "Duration" && kind == "Duration" then .d x else .nil
  | .nil => .nil

def accOK (acc kind : String) : Bool :=
  ((acc == "String" || acc == "URL") && kind == "String") ||
  ((acc == "Int" || acc == "Int64" || acc == "IntPtr") && (kind == "Int" || kind == "Int64")) ||
  (acc == "Bool" && kind == "Bool") || (acc == "Duration" && kind == "Duration")

/-! ### the YAML side -/

def yamlRow (st field : String) : Option (String × String × String × String) :=
  yamlFields.find? (fun r => r.1 == st && r.2.1 == field)

/-- struct type behind an owner: `Config` itself, the deprecated `YamlConfig` keys, or a section -/
def structOf (owner : String) : String :=
  if owner == "Config" || owner == "YamlConfig" then owner
  else match sectionGuards.find? (fun g => g.1 == owner) with
    | some g => g.2.1
    | none => ""

/-- the setting named by a YAML path -/
def keyOfYaml (sectionTag tag : String) : Key :=
  (if sectionTag == "s3_proxy" then "s3" else if sectionTag == "azblob_proxy" then "azblob" else sectionTag, tag)

def yamlKey (owner field : String) : Key :=
  let tag := match yamlRow (structOf owner) field with
    | some r => r.2.2.1
    | none => "?"
  let sec := if owner == "Config" || owner == "YamlConfig" then "" else
    match yamlRow "Config" owner with
    | some r => r.2.2.1
    | none => "?"
  keyOfYaml sec tag

def zeroOf (ty : String) : Val :=
  if ty == "string" || ty == "*url.URL" then .s ""
  else if ty == "bool" then .b false
  else if ty == "time.Duration" then .d 0
  else if ty == "int" || ty == "int64" then .i 0
  else .nil

def goType (owner field : String) : String :=
  match yamlRow (structOf owner) field with
  | some r => r.2.2.2
  | none => ""

def yamlDefault (owner field : String) : Val :=
  let z := zeroOf (goType owner field)
  match (if owner == "Config" then yamlDefaults.find? (fun r => r.1 == field) else none) with
  | some (_, ds, di) =>
    (match z with
     | .s _ => .s ds
     | .i _ => .i di
     | .b _ => .b (di != 0)
     | .d _ => .d di
     | .nil => .nil)
  | none => z

/-! ### field descriptors: one per (owner, field) that either front end can set -/

structure FD where
  owner : String
  field : String
  acc : String      -- ctx accessor; "" when no flag feeds this field
  key : Key         -- flag wired to the field by `get`
  kind : String     -- kind of that flag
  fdflt : Val       -- what the flag front end yields when the flag is not given
  ykey : Key        -- setting read by the YAML front end for this field
  ydflt : Val       -- what the YAML front end yields when the key is not given
deriving Repr, DecidableEq

def mkFD (owner field acc : String) (key : Key) : FD :=
  { owner := owner, field := field, acc := acc, key := key, kind := flagKind key,
    -- `if ctx.IsSet(flag) { v := ctx.Int(flag); field = &v }`: the pointer stays nil unless the flag is given
    fdflt := if acc == "IntPtr" then .nil else ctxGet acc (flagKind key) (flagDefault key),
    ykey := yamlKey owner field, ydflt := yamlDefault owner field }

/-- a struct field with a yaml key that `get` never sets from a flag -/
def mkYamlOnly (owner field : String) : FD :=
  { owner := owner, field := field, acc := "", key := yamlKey owner field, kind := "",
    fdflt := zeroOf (goType owner field),
    ykey := yamlKey owner field, ydflt := yamlDefault owner field }

def wiredFDs (owner : String) : List FD :=
  (wiring.filter (fun r => r.1 == owner)).map (fun r => mkFD r.1 r.2.1 r.2.2.1 (r.2.2.2.1, r.2.2.2.2))

def yamlOnlyFDs (owner : String) : List FD :=
  ((yamlFields.filter (fun r => r.1 == structOf owner && r.2.2.2 != "embedded")).filter
      (fun r => !(wiring.any (fun w => w.1 == owner && w.2.1 == r.2.1)))).map (fun r => mkYamlOnly owner r.2.1)

/-- the section fields (`Config` owner excluded: its unwired fields are the derived addresses, the
sections themselves and the YAML-only bucket list) -/
def sectionFDs (owner : String) : List FD := wiredFDs owner ++ yamlOnlyFDs owner

def topFDs : List FD := wiredFDs "Config"

/-- inputs of the three derived listener addresses, as `get` reads them -/
def addrFDs : List FD :=
  [ mkFD "Config" "HTTPAddress" "String" ("", "http_address"),
    mkFD "YamlConfig" "Host" "String" ("", "host"),
    mkFD "YamlConfig" "Port" "Int" ("", "port"),
    mkFD "Config" "GRPCAddress" "String" ("", "grpc_address"),
    mkFD "YamlConfig" "GRPCPort" "Int" ("", "grpc_port"),
    mkFD "Config" "ProfileAddress" "String" ("", "profile_address"),
    mkFD "YamlConfig" "ProfileHost" "String" ("", "profile_host"),
    mkFD "YamlConfig" "ProfilePort" "Int" ("", "profile_port") ]

def sectionOwners : List String := sectionGuards.map (·.1)

def allFDs : List FD := topFDs ++ addrFDs ++ sectionOwners.flatMap sectionFDs

def FD.good (fd : FD) : Bool := fd.key == fd.ykey && accOK fd.acc fd.kind
def FD.sameDefault (fd : FD) : Bool := fd.fdflt == fd.ydflt

def flagsVal (a : Assign) (fd : FD) : Val :=
  if fd.acc == "" then fd.fdflt
  else match a.get fd.key with
    | some v => ctxGet fd.acc fd.kind v
    | none => fd.fdflt

def yamlVal (a : Assign) (fd : FD) : Val := (a.get fd.ykey).getD fd.ydflt

/-! ### section presence -/

def guardOf (owner : String) : Key :=
  match sectionGuards.find? (fun g => g.1 == owner) with
  | some g => (g.2.2.1, g.2.2.2)
  | none => ("?", "?")

/-- flags: the section exists iff its key flag is non-empty -/
def flagsPresent (a : Assign) (owner : String) : Bool :=
  (a.get (guardOf owner)).getD (flagDefault (guardOf owner)) != .s ""

/-- YAML: the section exists iff the document has the section (any key of it) -/
def yamlPresent (a : Assign) (owner : String) : Bool :=
  a.any (fun e => e.1.1 == (guardOf owner).1)

/-! ### the effective configuration -/

structure Entry where
  owner : String
  field : String
  val : Val
deriving DecidableEq, Repr

abbrev Cfg := List Entry

def strOf : Val → String
  | .s x => x
  | _ => ""
def intOf : Val → Int
  | .i x => x
  | .d x => x
  | _ => 0

/-- `net.JoinHostPort` -/
def joinHostPort (host port : String) : String :=
  if host.toList.contains ':' then "[" ++ host ++ "]:" ++ port else host ++ ":" ++ port

/-- the three derived addresses (`get` and `NewFromYaml` share this shape); input order as `addrFDs` -/
def deriveAddrs (itoa : Int → String) (vs : List Val) : Cfg :=
  match vs with
  | [httpA, host, port, grpcA, grpcPort, profA, profHost, profPort] =>
    let http := if strOf httpA == "" then joinHostPort (strOf host) (itoa (intOf port)) else strOf httpA
    let grpc := if strOf grpcA == "" && intOf grpcPort > 0 then joinHostPort (strOf host) (itoa (intOf grpcPort)) else strOf grpcA
    let prof :=
      if strOf profA == "" && intOf profPort > 0 then joinHostPort (strOf profHost) (itoa (intOf profPort))
      else if strOf profA == "none" then "" else strOf profA
    [⟨"Config", "HTTPAddress", .s http⟩, ⟨"Config", "GRPCAddress", .s grpc⟩, ⟨"Config", "ProfileAddress", .s prof⟩]
  | _ => []

def entries (itoa : Int → String) (val : FD → Val) (present : String → Bool) : Cfg :=
  topFDs.map (fun fd => ⟨fd.owner, fd.field, val fd⟩) ++
  deriveAddrs itoa (addrFDs.map val) ++
  sectionOwners.flatMap (fun o =>
    if present o then ⟨o, "", .b true⟩ :: (sectionFDs o).map (fun fd => ⟨fd.owner, fd.field, val fd⟩)
    else [⟨o, "", .b false⟩])

/-- flags and environment variables (`get` → `newFromArgs`), before validation -/
def fromFlags (itoa : Int → String) (a : Assign) : Cfg := entries itoa (flagsVal a) (flagsPresent a)
/-- `NewFromYaml`, before validation -/
def fromYaml (itoa : Int → String) (a : Assign) : Cfg := entries itoa (yamlVal a) (yamlPresent a)

/-! ### validateConfig -/

def Cfg.val (c : Cfg) (owner field : String) : Val :=
  match c.find? (fun e => e.owner == owner && e.field == field) with
  | some e => e.val
  | none => .nil
def Cfg.str (c : Cfg) (o f : String) : String := strOf (c.val o f)
def Cfg.int (c : Cfg) (o f : String) : Int := intOf (c.val o f)
def Cfg.flag (c : Cfg) (o f : String) : Bool := c.val o f == .b true
def Cfg.has (c : Cfg) (o : String) : Bool := c.val o "" == .b true

structure UrlV where
  url : String
  key : String
  cert : String
  ca : String
deriving Repr, DecidableEq

structure VCfg where
  dir : String
  maxSize : Int
  storageMode : String
  zstdImpl : String
  httpAddress : String
  grpcAddress : String
  profileAddress : String
  remoteAsset : Bool
  tlsCa : String
  tlsCert : String
  tlsKey : String
  allowUnauthReads : Bool
  htpasswd : String
  maxBlob : Int
  maxProxyBlob : Int
  accessLogLevel : String
  logTimezone : String
  s3 : Option (String × Val × String × String)          -- auth_method, key_version, bucket_lookup_type, signature_type
  http : Option UrlV
  grpc : Option UrlV
  gcs : Option String                                    -- bucket
  az : Option (String × String × String)                 -- storage_account, container_name, auth_method
  ldap : Option (String × String)                        -- url, base_dn
deriving Repr

def urlV (c : Cfg) (o : String) : Option UrlV :=
  if c.has o then some ⟨c.str o "BaseURL", c.str o "KeyFile", c.str o "CertFile", c.str o "CaFile"⟩ else none

def view (c : Cfg) : VCfg :=
  { dir := c.str "Config" "Dir", maxSize := c.int "Config" "MaxSize",
    storageMode := c.str "Config" "StorageMode", zstdImpl := c.str "Config" "ZstdImplementation",
    httpAddress := c.str "Config" "HTTPAddress", grpcAddress := c.str "Config" "GRPCAddress",
    profileAddress := c.str "Config" "ProfileAddress",
    remoteAsset := c.flag "Config" "ExperimentalRemoteAssetAPI",
    tlsCa := c.str "Config" "TLSCaFile", tlsCert := c.str "Config" "TLSCertFile", tlsKey := c.str "Config" "TLSKeyFile",
    allowUnauthReads := c.flag "Config" "AllowUnauthenticatedReads", htpasswd := c.str "Config" "HtpasswdFile",
    maxBlob := c.int "Config" "MaxBlobSize", maxProxyBlob := c.int "Config" "MaxProxyBlobSize",
    accessLogLevel := c.str "Config" "AccessLogLevel", logTimezone := c.str "Config" "LogTimezone",
    s3 := if c.has "S3CloudStorage" then
        some (c.str "S3CloudStorage" "AuthMethod", c.val "S3CloudStorage" "KeyVersion",
              c.str "S3CloudStorage" "BucketLookupType", c.str "S3CloudStorage" "SignatureType") else none,
    http := urlV c "HTTPBackend", grpc := urlV c "GRPCBackend",
    gcs := if c.has "GoogleCloudStorage" then some (c.str "GoogleCloudStorage" "Bucket") else none,
    az := if c.has "AzBlobConfig" then
        some (c.str "AzBlobConfig" "StorageAccount", c.str "AzBlobConfig" "ContainerName", c.str "AzBlobConfig" "AuthMethod") else none,
    ldap := if c.has "LDAP" then some (c.str "LDAP" "URL", c.str "LDAP" "BaseDN") else none }

/-! `net.SplitHostPort` (Go standard library), on characters -/

def idxOf (c : Char) : List Char → Option Nat
  | [] => none
  | x :: xs => if x == c then some 0 else (idxOf c xs).map (· + 1)

def lastIdxOf (c : Char) (l : List Char) : Option Nat :=
  (idxOf c l.reverse).map (fun r => l.length - 1 - r)

/-- `some (host, port)` or `none` for an address error -/
def splitHostPort (hp : String) : Option (String × String) :=
  let l := hp.toList
  match lastIdxOf ':' l with
  | none => none
  | some i =>
    if l.head? == some '[' then
      match idxOf ']' l with
      | none => none
      | some e =>
        if e + 1 == i then
          if (l.drop 1).contains '[' then none
          else if (l.drop (e + 1)).contains ']' then none
          else some (String.ofList ((l.take e).drop 1), String.ofList (l.drop (i + 1)))
        else none
    else
      if (l.take i).contains ':' then none
      else if l.contains '[' then none
      else if l.contains ']' then none
      else some (String.ofList (l.take i), String.ofList (l.drop (i + 1)))

def unixPrefix : List Char := "unix://".toList
def isUnix (addr : String) : Bool := unixPrefix.isPrefixOf addr.toList
def unixPath (addr : String) : List Char := addr.toList.drop 7

/-- scheme of a proxy URL as `url.Parse` sees it (`getScheme`): `none` = parse error -/
def urlScheme (u : String) : Option String :=
  let rec go : List Char → List Char → Nat → Option String
    | [], _, _ => some ""
    | c :: cs, acc, i =>
      if c.isAlpha then go cs (c :: acc) (i + 1)
      else if c.isDigit || c == '+' || c == '-' || c == '.' then
        (if i == 0 then some "" else go cs (c :: acc) (i + 1))
      else if c == ':' then (if i == 0 then none else some (String.ofList (acc.reverse.map Char.toLower)))
      else some ""
  go u.toList [] 0

/-- `URLBackendConfig.validate(protocol)`: true = rejected -/
def urlBackendBad (protocol : String) (u : UrlV) : Bool :=
  let scheme := (urlScheme u.url).getD ""
  (scheme != protocol && scheme != protocol ++ "s") ||
  ((u.key != "" || u.cert != "") && ((u.key == "" || u.cert == "") || scheme != protocol ++ "s")) ||
  (u.ca != "" && scheme != protocol ++ "s")

def s3AuthMethods : List String := ["iam_role", "access_key", "aws_credentials_file"]
def azAuthMethods : List String := ["client_certificate", "client_secret", "environment_credential", "shared_key", "default"]

def httpPort? (v : VCfg) : Option String :=
  if isUnix v.httpAddress then none else (splitHostPort v.httpAddress).map (·.2)

def grpcListens (v : VCfg) : Bool := v.grpcAddress != "" && v.grpcAddress != "none"

def proxyCount (v : VCfg) : Nat :=
  (if v.s3.isSome then 1 else 0) + (if v.http.isSome then 1 else 0) + (if v.gcs.isSome then 1 else 0) +
  (if v.az.isSome then 1 else 0) + (if v.grpc.isSome then 1 else 0)

def portConflict (v : VCfg) : Bool :=
  grpcListens v && !isUnix v.grpcAddress &&
    (match httpPort? v, splitHostPort v.grpcAddress with
     | some hp, some (_, gp) => hp != "" && gp != "" && hp == gp
     | _, _ => false)

/-- the tests of `validateConfig`, in source order: (class, "this configuration is refused") -/
def checks : List (String × (VCfg → Bool)) :=
  [ ("dir", fun v => v.dir == ""),
    ("max_size", fun v => v.maxSize ≤ 0),
    ("storage_mode", fun v => v.storageMode != "zstd" && v.storageMode != "uncompressed"),
    ("zstd_implementation", fun v => v.zstdImpl != "go" && v.zstdImpl != "cgo"),
    ("proxy_count", fun v => proxyCount v > 1),
    ("http_address", fun v =>
      if isUnix v.httpAddress then (unixPath v.httpAddress).isEmpty else (splitHostPort v.httpAddress).isNone),
    ("grpc_address", fun v => grpcListens v &&
      (if isUnix v.grpcAddress then (unixPath v.grpcAddress).isEmpty else (splitHostPort v.grpcAddress).isNone)),
    ("port_conflict", portConflict),
    ("profile_address", fun v => v.profileAddress != "" && v.profileAddress != "none" &&
      isUnix v.profileAddress && (unixPath v.profileAddress).isEmpty),
    ("remote_asset_needs_grpc", fun v => v.grpcAddress == "none" && v.remoteAsset),
    ("tls_half", fun v => (v.tlsCert != "" && v.tlsKey == "") || (v.tlsCert == "" && v.tlsKey != "")),
    ("mtls_without_server_cert", fun v => v.tlsCa != "" && (v.tlsCert == "" || v.tlsKey == "")),
    ("unauthenticated_reads_without_auth", fun v =>
      v.allowUnauthReads && v.tlsCa == "" && v.htpasswd == "" && v.ldap.isNone),
    ("max_blob_size", fun v => v.maxBlob ≤ 0),
    ("max_proxy_blob_size", fun v => v.maxProxyBlob ≤ 0),
    ("gcs_bucket", fun v => v.gcs == some ""),
    ("http_proxy", fun v => match v.http with | some u => urlBackendBad "http" u | none => false),
    ("grpc_proxy", fun v => match v.grpc with | some u => urlBackendBad "grpc" u | none => false),
    ("s3", fun v => match v.s3 with
      | some (auth, kv, blt, sig) =>
        !s3AuthMethods.contains auth || (kv != .nil && kv != .i 2) ||
        (blt != "" && blt != "auto" && blt != "dns" && blt != "path") ||
        (sig != "" && sig != "v2" && sig != "v4" && sig != "v4streaming" && sig != "anonymous")
      | none => false),
    ("azblob", fun v => match v.az with
      | some (acct, cont, auth) => acct == "" || cont == "" || !azAuthMethods.contains auth
      | none => false),
    ("three_auth", fun v => v.htpasswd != "" && v.tlsCa != "" && v.ldap.isSome),
    ("ldap", fun v => match v.ldap with | some (url, base) => url == "" || base == "" | none => false),
    ("access_log_level", fun v => v.accessLogLevel != "none" && v.accessLogLevel != "all"),
    ("log_timezone", fun v => v.logTimezone != "UTC" && v.logTimezone != "local" && v.logTimezone != "none") ]

/-- `validateConfig`: the class of the first failing test, `none` = accepted -/
def validate (v : VCfg) : Option String := (checks.find? (fun c => c.2 v)).map (·.1)

/-- proxy URLs that `url.Parse` refuses make both front ends fail before validation -/
def urlBad (c : Cfg) : Bool :=
  (c.has "HTTPBackend" && (urlScheme (c.str "HTTPBackend" "BaseURL")).isNone) ||
  (c.has "GRPCBackend" && (urlScheme (c.str "GRPCBackend" "BaseURL")).isNone)

/-- `validateConfig` also fills in two LDAP defaults -/
def normalize (c : Cfg) : Cfg :=
  c.map (fun e =>
    if e.owner == "LDAP" && e.field == "UsernameAttribute" && e.val == .s "" then { e with val := .s "uid" }
    else if e.owner == "LDAP" && e.field == "CacheTime" && intOf e.val ≤ 0 then { e with val := .d 3600 }
    else e)

/-- start-up: `some cfg` (the effective configuration) or `none` (refused with an error) -/
def start (c : Cfg) : Option Cfg :=
  if urlBad c then none
  else match validate (view c) with
    | some _ => none
    | none => some (normalize c)

/-- does a typed YAML scalar decode into a Go field of this type?  (yaml.v3 refuses a bare integer
for a `time.Duration`, a string for an `int`, …) -/
def yamlFits (ty : String) : Val → Bool
  | .s _ => ty == "string" || ty == "*url.URL"
  | .i _ => ty == "int" || ty == "int64" || ty == "*int"
  | .b _ => ty == "bool"
  | .d _ => ty == "time.Duration"
  | .nil => false

/-- `yaml.Unmarshal` fails when a given key does not fit its field -/
def yamlDecodeBad (a : Assign) : Bool :=
  allFDs.any (fun fd => match a.get fd.ykey with
    | some v => !yamlFits (goType fd.owner fd.field) v
    | none => false)

def startFlags (itoa : Int → String) (a : Assign) : Option Cfg := start (fromFlags itoa a)
def startYaml (itoa : Int → String) (a : Assign) : Option Cfg :=
  if yamlDecodeBad a then none else start (fromYaml itoa a)

/-- which owners' fields are part of the effective configuration -/
def ownerActive (a : Assign) (o : String) : Bool := o == "Config" || o == "YamlConfig" || flagsPresent a o

/-- decidable form of `BR.Props.C19.Comparable`: the assignments for which the property demands
identical results from both syntaxes -/
def comparableB (a : Assign) : Bool :=
  a.all (fun e => kindMatches (flagKind e.1) e.2) &&
  allFDs.all (fun fd => fd.good || ((a.get fd.key).isNone && (a.get fd.ykey).isNone)) &&
  allFDs.all (fun fd => fd.sameDefault || !ownerActive a fd.owner || a.given fd.key) &&
  sectionOwners.all (fun o => yamlPresent a o == flagsPresent a o)

end BR.Config
