import BR.Model.Disk
import BR.Model.AC
/-
M3 — key spaces and naming: `TransformActionCacheKey` (cache/cache.go), `parseRequestURL`
(server/http.go, regexp `^/?(.*/)?(ac/|cas/)([a-f0-9]{64})$`), and the file-name grammar of
`scanDir` (cache/disk/load.go).  Strings are handled as character lists.
-/
namespace BR.Names
open BR.Disk

/-- `TransformActionCacheKey`: the key is unchanged for the empty instance name, otherwise it is the
    SHA-256 (hex) of key ++ instance.  `H` is the opaque hash. -/
def transformKey (H : String → String) (key inst : String) : String :=
  if inst = "" then key else H (key ++ inst)

def isHexLower (c : Char) : Bool := ('0' ≤ c && c ≤ '9') || ('a' ≤ c && c ≤ 'f')

inductive UKind where
  | cas | ac
deriving DecidableEq, Repr

/-- the unique way `^/?(.*/)?(ac/|cas/)([a-f0-9]{64})$` can match: the last 64 characters are the
    hash, preceded by `cas/` or `ac/`; what remains, after one optional leading `/`, is empty or ends
    with `/`.  Returns (kind, hash, instance) where instance = group 1 without one trailing `/`. -/
def parseRequestURL (url : String) : Option (UKind × String × String) :=
  let cs := url.toList
  if cs.length < 64 then none
  else
    let hash := cs.drop (cs.length - 64)
    let pre := cs.take (cs.length - 64)
    if !hash.all isHexLower then none
    else
      let fin (kind : UKind) (rest : List Char) : Option (UKind × String × String) :=
        let rest := match rest with | '/' :: r => r | r => r        -- `/?`
        if rest = [] then some (kind, String.ofList hash, "")
        else if rest.getLast? = some '/' then some (kind, String.ofList hash, String.ofList rest.dropLast)
        else none
      if "cas/".toList.isSuffixOf pre then fin .cas (pre.take (pre.length - 4))
      else if "ac/".toList.isSuffixOf pre then fin .ac (pre.take (pre.length - 3))
      else none

end BR.Names
