import BR.Model.CasBlob
/-!
Toy codecs standing in for zstd.

* `Toy8.codec` is byte accurate (frame = `0xF0`, 4-byte little-endian length, payload; skippable
  frames with the real zstd magic are skipped).  The Go harness registers the same codec as
  `zstdimpl` "veriftoy", so the model driver and the real casblob code can be compared byte for byte.
* `ToyU.codec` stores the length in a single unbounded cell, which makes the codec laws hold for
  every input; it is the witness that `Codec.Lawful` is satisfiable (see `BR.Lemmas.Toy`).
-/
namespace BR.CasBlob

namespace Toy8

def frame (x : Bytes) : Bytes := 0xF0 :: le32 x.length ++ x

def decStream (b : Bytes) : Bytes × Bool :=
  match b with
  | [] => ([], true)
  | 0xF0 :: rest =>
    if rest.length < 4 then ([], false)
    else
      let n := fromLE (rest.take 4)
      let body := rest.drop 4
      if body.length < n then ([], false)
      else
        let r := decStream (body.drop n)
        (body.take n ++ r.1, r.2)
  | 0x50 :: 0x2A :: 0x4D :: 0x18 :: rest =>
    if rest.length < 4 then ([], false)
    else
      let n := fromLE (rest.take 4)
      let body := rest.drop 4
      if body.length < n then ([], false)
      else decStream (body.drop n)
  | _ => ([], false)
termination_by b.length
decreasing_by
  all_goals simp only [List.length_drop, List.length_cons]
  all_goals omega

def codec : Codec :=
  { enc := frame
    decAll := fun f => let r := decStream f; if r.2 then some r.1 else none
    decStream := decStream }

end Toy8

namespace ToyU

def frame (x : Bytes) : Bytes := 0xF0 :: x.length :: x

def decStream (b : Bytes) : Bytes × Bool :=
  match b with
  | [] => ([], true)
  | 0xF0 :: n :: body =>
    if body.length < n then ([], false)
    else
      let r := decStream (body.drop n)
      (body.take n ++ r.1, r.2)
  | _ => ([], false)
termination_by b.length
decreasing_by
  simp only [List.length_drop, List.length_cons]
  omega

def codec : Codec :=
  { enc := frame
    decAll := fun f => let r := decStream f; if r.2 then some r.1 else none
    decStream := decStream }

end ToyU

end BR.CasBlob
