/-
M8 — ActionResult validation (`utils/validate/action_result.go`), the dependency walk of
`GetValidatedActionResult` (cache/disk/disk.go) and the hit/miss decision.

Go pointers are `Option`; repeated fields are lists of `Option` elements (a nil element can only
arrive through an in-process call, never over the wire, but the validator handles it).
-/
namespace BR.AC

structure Digest where
  hash : String
  size : Int
deriving DecidableEq, Repr

structure OutputFile where
  path : String
  digest : Option Digest
  hasContents : Bool        -- len(Contents) > 0
deriving DecidableEq, Repr

structure OutputDir where
  path : String
  treeDigest : Option Digest
deriving DecidableEq, Repr

structure Symlink where
  path : String
  target : String
deriving DecidableEq, Repr

structure ActionResult where
  files : List (Option OutputFile)
  dirs : List (Option OutputDir)
  fileSymlinks : List (Option Symlink)
  symlinks : List (Option Symlink)
  dirSymlinks : List (Option Symlink)
  stdoutDigest : Option Digest
  stderrDigest : Option Digest
deriving DecidableEq, Repr

inductive VErr where
  | nilFile | emptyPath | absPath | nilDigest | negSize | badHash
  | nilDir | absDirPath | nilTreeDigest
  | nilSymlink | emptySymPath | emptySymTarget | absSymPath
deriving DecidableEq, Repr

def isHexLower (c : Char) : Bool := ('0' ≤ c && c ≤ '9') || ('a' ≤ c && c ≤ 'f')

/-- `HashKeyRegex` = `^[a-f0-9]{64}$` -/
def validHash (h : String) : Bool := h.toList.length == 64 && h.toList.all isHexLower

def isAbs (p : String) : Bool := "/".toList.isPrefixOf p.toList

/-- `maybeNilDigest` -/
def checkDigest : Option Digest → Option VErr
  | none => none
  | some d => if d.size < 0 then some .negSize else if !validHash d.hash then some .badHash else none

def checkFile : Option OutputFile → Option VErr
  | none => some .nilFile
  | some f =>
    if f.path = "" then some .emptyPath
    else if isAbs f.path then some .absPath
    else match f.digest with
      | none => some .nilDigest
      | some d => checkDigest (some d)

def checkDir : Option OutputDir → Option VErr
  | none => some .nilDir
  | some d =>
    if isAbs d.path then some .absDirPath
    else match d.treeDigest with
      | none => some .nilTreeDigest
      | some t => checkDigest (some t)

def checkSymlink : Option Symlink → Option VErr
  | none => some .nilSymlink
  | some s =>
    if s.path = "" then some .emptySymPath
    else if s.target = "" then some .emptySymTarget
    else if isAbs s.path then some .absSymPath
    else none

/-- first error of a list of checks, in order -/
def firstErr {α} (f : α → Option VErr) : List α → Option VErr
  | [] => none
  | x :: xs => match f x with
    | some e => some e
    | none => firstErr f xs

def orElse (a b : Option VErr) : Option VErr := match a with | some e => some e | none => b

/-- `validate.ActionResult` -/
def validate (ar : ActionResult) : Option VErr :=
  orElse (firstErr checkFile ar.files) <|
  orElse (firstErr checkDir ar.dirs) <|
  orElse (firstErr checkSymlink ar.fileSymlinks) <|
  orElse (firstErr checkSymlink ar.symlinks) <|
  orElse (firstErr checkSymlink ar.dirSymlinks) <|
  orElse (checkDigest ar.stdoutDigest) (checkDigest ar.stderrDigest)

/-! ### dependency walk -/

structure FileNode where
  digest : Option Digest
deriving Repr

/-- a decoded `Tree`: files of the root directory and of each child directory -/
structure Tree where
  rootFiles : List FileNode
  childFiles : List (List FileNode)
deriving Repr

/-- the digests `GetValidatedActionResult` hands to the fail-fast presence check, given the decoded
    tree of each output directory (in order): output files without inline contents, tree root and
    children files with a digest, stdout and stderr digests -/
def pending (ar : ActionResult) (trees : List Tree) : List Digest :=
  (ar.files.filterMap (fun f => match f with
      | some f => if f.hasContents then none else f.digest
      | none => none)) ++
  (trees.flatMap (fun t => t.rootFiles.filterMap (·.digest) ++ t.childFiles.flatMap (fun c => c.filterMap (·.digest)))) ++
  ar.stdoutDigest.toList ++ ar.stderrDigest.toList

/-- presence of a CAS blob with the stated size, locally or in the back end; the empty blob is
    always present -/
abbrev Present := Digest → Bool

inductive GetOut where
  | hit | miss | err
deriving DecidableEq, Repr

/-- reading the Tree blobs of the output directories, in order: the first absent one makes the
    lookup a miss, the first undecodable one an error -/
def readTrees (present : Present) (treeOf : Digest → Option Tree) : List Digest → Except GetOut (List Tree)
  | [] => .ok []
  | td :: rest =>
    if !present td then .error .miss
    else match treeOf td with
      | none => .error .err
      | some t => match readTrees present treeOf rest with
        | .ok ts => .ok (t :: ts)
        | .error e => .error e

def treeDigests (ar : ActionResult) : List Digest :=
  ar.dirs.filterMap (fun d => match d with | some d => d.treeDigest | none => none)

/-- hit/miss decision of `GetValidatedActionResult` once the stored result has been read and
    validated: every output directory's tree blob must be readable with the stated size, and every
    pending digest present (fail-fast check) -/
def lookup (present : Present) (ar : ActionResult) (treeOf : Digest → Option Tree) : GetOut :=
  match readTrees present treeOf (treeDigests ar) with
  | .error e => e
  | .ok trees => if (pending ar trees).all present then .hit else .miss

end BR.AC
