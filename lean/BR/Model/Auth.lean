/-
M9 — access-control decision of bazel-remote: the HTTP wrapper selection in `startHttpServer`
(main.go), the certificate checks of `CacheHandler` (server/http.go) and the gRPC interceptors
(`grpc_basic_auth.go`, `grpc.go`).  A decision is `deny` (401 / Unauthenticated / failed TLS
handshake) or `pass` (the request reaches the handler or a non-auth error such as 400/404/405).
-/
namespace BR.Auth

inductive Mode where
  | none | basic | mtls
deriving DecidableEq, Repr

structure Cfg where
  mode : Mode
  allowReads : Bool     -- allow_unauthenticated_reads
  metrics : Bool        -- enable_endpoint_metrics
deriving DecidableEq, Repr

/-- credential state. basic auth: no header / malformed header / unknown user / wrong password /
    valid.  mTLS: `none` = no client certificate, `malformed` = certificate not signed by the CA
    (the TLS handshake itself fails), `valid` = verified certificate. -/
inductive Cred where
  | none | malformed | unknownUser | wrongPassword | valid
deriving DecidableEq, Repr

def Cred.ok : Cred → Bool
  | .valid => true
  | _ => false

inductive Endpoint where
  | status | metrics | cas | ac | bad
deriving DecidableEq, Repr

inductive Method where
  | get | head | put | post | delete
deriving DecidableEq, Repr

inductive Decision where
  | pass | deny
deriving DecidableEq, Repr

def need (cr : Cred) : Decision := if cr.ok then .pass else .deny

def Method.isRead : Method → Bool
  | .get | .head => true
  | _ => false

/-- HTTP: which wrapper guards which endpoint -/
def httpDecision (c : Cfg) (e : Endpoint) (m : Method) (cr : Cred) : Decision :=
  match c.mode with
  | .none => .pass
  | .basic =>
    match e with
    | .status => if c.allowReads then .pass else need cr
    | .metrics => if !c.metrics then .pass else if c.allowReads then .pass else need cr
    | _ => if c.allowReads && m.isRead then .pass else need cr
  | .mtls =>
    if cr = .malformed then .deny     -- handshake fails: nothing is served
    else
      match e with
      | .status => if c.allowReads then .pass else need cr
      | .metrics => if !c.metrics then .pass else if c.allowReads then .pass else need cr
      | .bad => .pass                   -- 400 from the URL parser, before any certificate check
      | _ =>
        match m with
        | .get | .head => if c.allowReads then .pass else need cr
        | .put => need cr
        | _ => .pass                    -- 405 Method Not Allowed

def healthCheck : String := "/grpc.health.v1.Health/Check"

/-- `readOnlyMethods` of server/grpc.go (sorted) -/
def readOnly : List String :=
  ["/build.bazel.remote.execution.v2.ActionCache/GetActionResult",
   "/build.bazel.remote.execution.v2.Capabilities/GetCapabilities",
   "/build.bazel.remote.execution.v2.ContentAddressableStorage/BatchReadBlobs",
   "/build.bazel.remote.execution.v2.ContentAddressableStorage/FindMissingBlobs",
   "/build.bazel.remote.execution.v2.ContentAddressableStorage/GetTree",
   "/google.bytestream.ByteStream/Read"]

/-- gRPC: the interceptor chain -/
def grpcDecision (c : Cfg) (fullMethod : String) (isStream : Bool) (cr : Cred) : Decision :=
  match c.mode with
  | .none => .pass
  | .basic =>
    if fullMethod = healthCheck then .pass
    else if c.allowReads && readOnly.contains fullMethod then .pass
    else need cr
  | .mtls =>
    if cr = .malformed then .deny
    else if !isStream && fullMethod = healthCheck then .pass
    else if c.allowReads && readOnly.contains fullMethod then .pass
    else need cr

/-- every method of every service bazel-remote can register, with whether it can create or change
    cache content -/
def methodTable : List (String × Bool) :=
  [("/build.bazel.remote.execution.v2.ActionCache/GetActionResult", false),
   ("/build.bazel.remote.execution.v2.ActionCache/UpdateActionResult", true),
   ("/build.bazel.remote.execution.v2.Capabilities/GetCapabilities", false),
   ("/build.bazel.remote.execution.v2.ContentAddressableStorage/FindMissingBlobs", false),
   ("/build.bazel.remote.execution.v2.ContentAddressableStorage/BatchUpdateBlobs", true),
   ("/build.bazel.remote.execution.v2.ContentAddressableStorage/BatchReadBlobs", false),
   ("/build.bazel.remote.execution.v2.ContentAddressableStorage/GetTree", false),
   ("/build.bazel.remote.execution.v2.ContentAddressableStorage/SplitBlob", false),
   ("/build.bazel.remote.execution.v2.ContentAddressableStorage/SpliceBlob", true),
   ("/google.bytestream.ByteStream/Read", false),
   ("/google.bytestream.ByteStream/Write", true),
   ("/google.bytestream.ByteStream/QueryWriteStatus", false),
   ("/build.bazel.remote.asset.v1.Fetch/FetchBlob", true),
   ("/build.bazel.remote.asset.v1.Fetch/FetchDirectory", true),
   ("/grpc.health.v1.Health/Check", false),
   ("/grpc.health.v1.Health/Watch", false),
   ("/grpc.health.v1.Health/List", false)]

/-- a method counts as mutating unless the table says otherwise (unknown ⇒ mutating) -/
def mutating (m : String) : Bool :=
  match methodTable.find? (fun p => p.1 == m) with
  | some p => p.2
  | none => true

def classified (m : String) : Bool := (methodTable.find? (fun p => p.1 == m)).isSome

end BR.Auth
