/-
M1 — model of cache/disk/lru.go (SizedLRU).

Conventions (DESIGN.md §2.2):
* `order` is the recency list **least recently used first** (the Go list's Back() is our head,
  Front() is our last element).  The driver prints it MRU-first like the Go list.
* every list element has an identity `id` (the `*list.Element` pointer of the Go code); an
  overwrite keeps the element and replaces its value in place, exactly as `Add` does.
* integers are unbounded `Int`; the two places where int64/uint64 wrap-around matters
  (`sumLargerThan`, the hard-limit sum) are modelled with explicit wrap functions.
* the `for` loops of `Add`/`Reserve` are structural recursion over the list with an explicit
  `stuck` (Add: the Go loop would spin forever) / `internal` (Reserve) outcome.
-/
namespace BR.Lru

def blockSize : Int := 4096

/-- `roundUp4k` of lru.go on unbounded integers: `(n + 4095) & -4096`. -/
def roundUp4k (n : Int) : Int := (n + 4095) / 4096 * 4096

/-- two's complement wrap of an `int64` addition result -/
def wrap64 (x : Int) : Int := (x + 9223372036854775808) % 18446744073709551616 - 9223372036854775808

/-- conversion `uint64(x)` -/
def u64 (x : Int) : Int := x % 18446744073709551616

/-- `sumLargerThan(a, b, c)` with the int64 addition wrapping -/
def sumLargerThan (a b c : Int) : Bool :=
  let sum := wrap64 (a + b)
  if sum > c then true
  else if sum ≤ 0 then true
  else false

structure Item where
  size : Int
  sizeOnDisk : Int
  random : String
  legacy : Bool
deriving DecidableEq, Repr, Inhabited

structure Elem where
  id : Nat
  key : String
  val : Item
deriving DecidableEq, Repr, Inhabited

def Elem.rdisk (e : Elem) : Int := roundUp4k e.val.sizeOnDisk
def Elem.rsize (e : Elem) : Int := roundUp4k e.val.size

structure Lru where
  maxSize : Int
  hardLimit : Int
  order : List Elem              -- LRU first
  cur : Int                      -- currentSize
  res : Int                      -- reservedSize
  unc : Int                      -- uncompressedSize
  queue : List (String × Item)   -- removed from the index, file not yet unlinked (oldest first)
  qsize : Int                    -- queuedEvictionsSize
  nextId : Nat
deriving Repr, Inhabited

def init (maxSize hardLimit : Int) : Lru :=
  { maxSize, hardLimit, order := [], cur := 0, res := 0, unc := 0, queue := [], qsize := 0, nextId := 0 }

def sumDisk (l : List Elem) : Int := (l.map Elem.rdisk).sum
def sumSize (l : List Elem) : Int := (l.map Elem.rsize).sum
def sumQueue (q : List (String × Item)) : Int := (q.map (fun p => p.2.sizeOnDisk)).sum

def find? (l : Lru) (k : String) : Option Elem := l.order.find? (fun e => e.key == k)

/-- `removeElement` applied to the element at the back of the Go list (our head). -/
def enqueue (l : Lru) (e : Elem) : Lru :=
  { l with queue := l.queue ++ [(e.key, e.val)], qsize := l.qsize + e.val.sizeOnDisk }

/-- outcome of an eviction loop -/
inductive Loop where
  | done (l : Lru)
  | empty (l : Lru)   -- list exhausted while the condition still holds
deriving Repr

/-- `for cond(currentSize) { ele := Back(); if ele != nil { removeElement(ele) } … }`.
    `over cur` is the loop condition as a function of `currentSize`. -/
def evictLoop (over : Int → Bool) : List Elem → Lru → Loop
  | [], l => if over l.cur then .empty l else .done l
  | e :: rest, l =>
    if over l.cur then
      evictLoop over rest
        (enqueue { l with order := rest, cur := l.cur - e.rdisk, unc := l.unc - e.rsize } e)
    else .done l

inductive AddOut where
  | ok | refused | stuck
deriving DecidableEq, Repr

/-- tail of `Add` common to both branches: the eviction loop, then the counters -/
def addFinish (maxSize : Int) (l1 : Lru) (delta ud : Int) : Lru × AddOut :=
  match evictLoop (fun cur => cur + delta > maxSize) l1.order l1 with
  | .done l2 => ({ l2 with cur := l2.cur + delta, unc := l2.unc + ud }, .ok)
  | .empty l2 => (l2, .stuck)   -- the Go loop would spin forever

/-- `SizedLRU.Add` -/
def add (l : Lru) (k : String) (v : Item) : Lru × AddOut :=
  let r := roundUp4k v.sizeOnDisk
  if r > l.maxSize then (l, .refused)
  else
    match find? l k with
    | some ee =>
      let delta := r - roundUp4k ee.val.sizeOnDisk
      if l.res + delta > l.maxSize then (l, .refused)
      else
        -- MoveToFront, old value copied to the queue, value replaced in place
        addFinish l.maxSize
          { l with order := l.order.filter (fun e => !(e.key == k)) ++ [{ ee with val := v }]
                   queue := l.queue ++ [(k, ee.val)]
                   qsize := l.qsize + ee.val.sizeOnDisk }
          delta (roundUp4k v.size - roundUp4k ee.val.size)
    | none =>
      if l.res + r > l.maxSize then (l, .refused)
      else
        addFinish l.maxSize
          { l with order := l.order ++ [{ id := l.nextId, key := k, val := v }]
                   nextId := l.nextId + 1 }
          r (roundUp4k v.size)

/-- `SizedLRU.Get`: move to front, return value and element identity -/
def get (l : Lru) (k : String) : Lru × Option Elem :=
  match find? l k with
  | some e => ({ l with order := l.order.filter (fun x => !(x.key == k)) ++ [e] }, some e)
  | none => (l, none)

/-- `removeElement` of an element that is still in the list -/
def removeElem (l : Lru) (e : Elem) : Lru :=
  enqueue { l with order := l.order.filter (fun x => !(x.id == e.id)),
                   cur := l.cur - e.rdisk, unc := l.unc - e.rsize } e

/-- `SizedLRU.RemoveKey` -/
def removeKey (l : Lru) (k : String) : Lru :=
  match find? l k with
  | some e => removeElem l e
  | none => l

/-- `SizedLRU.RemoveElement(elem)` for an element captured earlier (identity `id`).
    After the `fix:` commit for F14 the call is a no-op when the element has left the index. -/
def removeElemId (l : Lru) (id : Nat) : Lru :=
  match l.order.find? (fun e => e.id == id) with
  | some e => removeElem l e
  | none => l

inductive Err where
  | badRequest            -- 400
  | insufficientReserved  -- 507: item + reserved > maxSize
  | insufficientHard      -- 507: hard limit
  | internal              -- 500
deriving DecidableEq, Repr

/-- `calcTotalDiskSizeAndUpdatePeak(size)` return value (uint64 arithmetic) -/
def totalDiskSize (l : Lru) (size : Int) : Int := u64 (u64 l.cur + u64 l.qsize + u64 size)

/-- `SizedLRU.Reserve` -/
def reserve (l : Lru) (size : Int) : Lru × Option Err :=
  if size == 0 then (l, none)
  else if size < 0 then (l, some .badRequest)
  else if size > l.maxSize then (l, some .badRequest)
  else if sumLargerThan size l.res l.maxSize then (l, some .insufficientReserved)
  else if l.hardLimit > 0 && totalDiskSize l size > u64 l.hardLimit then (l, some .insufficientHard)
  else
    match evictLoop (fun cur => sumLargerThan size cur l.maxSize) l.order l with
    | .done l2 => ({ l2 with cur := l2.cur + size, res := l2.res + size }, none)
    | .empty l2 => (l2, some .internal)

/-- `SizedLRU.Unreserve` -/
def unreserve (l : Lru) (size : Int) : Lru × Bool :=
  if size == 0 then (l, true)
  else if size < 0 then (l, false)
  else
    let newC := l.cur - size
    let newR := l.res - size
    if newC < 0 || newR < 0 then (l, false)
    else ({ l with cur := newC, res := newR }, true)

/-- one iteration of the body of `performQueuedEvictions`: unlink the oldest queued file -/
def drainOne (l : Lru) : Lru × Option (String × Item) :=
  match l.queue with
  | [] => (l, none)
  | p :: rest => ({ l with queue := rest, qsize := l.qsize - p.2.sizeOnDisk }, some p)

def drainAll (l : Lru) : Lru := { l with queue := [], qsize := l.qsize - sumQueue l.queue }

/-! ### operations as a step function (used by the driver and by `inv_run`) -/

inductive Op where
  | add (k : String) (v : Item)
  | get (k : String)
  | removeKey (k : String)
  | removeElemId (id : Nat)
  | reserve (n : Int)
  | unreserve (n : Int)
  | drainOne
deriving Repr

inductive Out where
  | add (o : AddOut)
  | got (e : Option Elem)
  | unit
  | err (e : Option Err)
  | bool (b : Bool)
  | drained (p : Option (String × Item))
deriving Repr

def step (l : Lru) : Op → Lru × Out
  | .add k v => let (l', o) := add l k v; (l', .add o)
  | .get k => let (l', o) := get l k; (l', .got o)
  | .removeKey k => (removeKey l k, .unit)
  | .removeElemId id => (removeElemId l id, .unit)
  | .reserve n => let (l', o) := reserve l n; (l', .err o)
  | .unreserve n => let (l', o) := unreserve l n; (l', .bool o)
  | .drainOne => let (l', o) := drainOne l; (l', .drained o)

def run (l : Lru) (ops : List Op) : Lru := ops.foldl (fun s o => (step s o).1) l

end BR.Lru
