import BR.Model.Lru
