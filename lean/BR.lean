import BR.Props.C01
import BR.Props.C02
import BR.Props.C03
import BR.Props.C04
import BR.Props.C05
import BR.Props.C06
import BR.Props.C07
import BR.Props.C08
import BR.Props.C09
import BR.Props.C10
import BR.Props.C11
import BR.Props.C12
import BR.Props.C13
import BR.Props.C14
import BR.Props.C15
import BR.Props.C16
import BR.Props.C17
import BR.Props.C18
import BR.Props.C19
import BR.Props.C20
import BR.Bridge.Auth
import BR.Bridge.Backend
import BR.Bridge.Blob
import BR.Bridge.Disk
import BR.Bridge.Inline
import BR.Bridge.Lru

/-! Root of the library: every property module and every Bridge module, so that a plain `lake build` re-checks the whole development. -/
