import BR.Model.Conc
import Driver.Util
import Driver.BlobDrv
namespace Driver
open BR.Conc

def parseStepTok (t : String) : Option (List Step) :=
  if t == "u" then some [.unlink]
  else match t.toList with
    | 'p' :: rest =>
      (match rest.reverse with
       | 'a' :: ds => (String.ofList ds.reverse).toNat?.map (fun i => [.putReserve i, .putWrite i false])
       | 'b' :: ds => (String.ofList ds.reverse).toNat?.map (fun i => [.putCommit i])
       | _ => none)
    | 'g' :: rest =>
      (match rest.reverse with
       | 'a' :: ds => (String.ofList ds.reverse).toNat?.map (fun j => [.getLookup j])
       | 'b' :: ds => (String.ofList ds.reverse).toNat?.map (fun j => [.getOpen j])
       | 'c' :: ds => (String.ofList ds.reverse).toNat?.map (fun j => [.getRemove j])
       | _ => none)
    | 'x' :: rest =>
      -- corrupt the file written by upload <i> of key <k>: x<i>
      (String.ofList rest).toNat?.map (fun i => [.corrupt "*" (rndOf i)])
    | _ => none

/-- `conc.run max=M puts=<key>:<len>:<id>,… gets=<key>,… sched=<tok>,…`
    content of upload i is `len` copies of the byte `id`.  Output: result of every read (id of the
    upload whose bytes were returned, `miss`, or `pending`), reservations, number of entries. -/
def concStep (toks : List String) : Option String :=
  match toks with
  | "conc.run" :: rest => do
      let max ← parseInt? (← kv rest "max")
      let ps := (← kv rest "puts")
      let gs := (← kv rest "gets")
      let sc := (← kv rest "sched")
      let puts ← (if ps == "-" then [] else ps.splitOn ",").mapM (fun t =>
        match t.splitOn ":" with
        | [k, len, id] => do some (k, List.replicate (← len.toNat?) (← id.toNat?))
        | _ => none)
      let gets := if gs == "-" then [] else gs.splitOn ","
      let steps ← (if sc == "-" then [] else sc.splitOn ",").mapM parseStepTok
      let s0 := initState max 0 puts gets
      -- "x<i>" names the file by its temp suffix only: resolve the key from the upload
      let steps' := steps.flatten.map (fun st => match st with
        | .corrupt _ r => (match puts.zipIdx.find? (fun (_, i) => rndOf i == r) with
            | some ((k, _), _) => Step.corrupt k r
            | none => st)
        | _ => st)
      let s := BR.Conc.run s0 steps'
      let showGet (g : GetT) : String := match g.pc with
        | .done (some c) => (match c with | b :: _ => s!"v{b}" | [] => "v?")
        | .done none => "miss"
        | _ => "pending"
      some s!"gets={showList (s.gets.map showGet)} res={s.lru.res} n={s.lru.order.length} keys={showList (s.lru.order.map (fun e => e.key))}"
  | _ => none

end Driver
