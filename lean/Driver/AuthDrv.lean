import BR.Model.Auth
import Driver.Util
import Driver.BlobDrv
namespace Driver
open BR.Auth

def parseCfg (toks : List String) : Option Cfg := do
  let mode ← match (← kv toks "mode") with
    | "none" => some Mode.none | "basic" => some Mode.basic | "mtls" => some Mode.mtls | _ => none
  let r ← boolOf? (← kv toks "reads")
  let m ← boolOf? (← kv toks "metrics")
  some { mode := mode, allowReads := r, metrics := m }

def parseCred : String → Option Cred
  | "none" => some .none | "malformed" => some .malformed | "unknown" => some .unknownUser
  | "wrongpw" => some .wrongPassword | "valid" => some .valid | _ => none

def showDecision : Decision → String
  | .pass => "pass" | .deny => "deny"

def authStep (toks : List String) : Option String :=
  match toks with
  | "auth.http" :: rest => do
      let c ← parseCfg rest
      let e ← match (← kv rest "ep") with
        | "status" => some Endpoint.status | "metrics" => some Endpoint.metrics | "cas" => some Endpoint.cas
        | "ac" => some Endpoint.ac | "bad" => some Endpoint.bad | _ => none
      let m ← match (← kv rest "m") with
        | "GET" => some Method.get | "HEAD" => some Method.head | "PUT" => some Method.put
        | "POST" => some Method.post | "DELETE" => some Method.delete | _ => none
      let cr ← parseCred (← kv rest "cred")
      some (showDecision (httpDecision c e m cr))
  | "auth.grpc" :: rest => do
      let c ← parseCfg rest
      let m ← kv rest "method"
      let s ← boolOf? (← kv rest "stream")
      let cr ← parseCred (← kv rest "cred")
      let reg ← boolOf? (← kv rest "reg")
      -- methods of services that are not registered never reach an interceptor (Unimplemented)
      if !reg then some (if c.mode = .mtls && cr = .malformed then "deny" else "pass")
      else if !classified m then some "UNCLASSIFIED-METHOD"
      else some (showDecision (grpcDecision c m s cr))
  | _ => none

end Driver
