import BR.Model.Proto
import Driver.Util
import Driver.BlobDrv
namespace Driver
open BR.Proto BR.Names

def hexToString? (h : String) : Option String := do
  let bs ← hexToBytes? h
  String.fromUTF8? (ByteArray.mk (bs.map (fun b => b.toUInt8)).toArray)

def showPRes (r : PRes (String × Int × Bool)) : String :=
  match r with
  | .ok (h, s, z) => s!"ok {h} {s} {if z then "zstd" else "identity"}"
  | .err => "err"
  | .panic => "panic"

def protoStep (toks : List String) : Option String :=
  match toks with
  | ["url.parse"] => some (match parseRequestURL "" with | some _ => "ok" | none => "err")
  | ["bs.parsewrite"] => some (showPRes (parseWrite ("".splitOn "/")))
  | ["bs.parseread"] => some (showPRes (parseRead ("".splitOn "/")))
  | ["url.parse", h] => do
      let url ← hexToString? h
      some (match parseRequestURL url with
        | some (k, hash, inst) => s!"ok {if k == .cas then "cas" else "ac"} {hash} inst={bytesToHex (inst.toUTF8.toList.map (·.toNat))}"
        | none => "err")
  | ["bs.parsewrite", h] => do
      let name ← hexToString? h
      some (showPRes (parseWrite (name.splitOn "/")))
  | ["bs.parseread", h] => do
      let name ← hexToString? h
      some (showPRes (parseRead (name.splitOn "/")))
  | "bs.qws" :: rest => do
      -- bs.qws name=<hex> present=0|1
      let name ← hexToString? (← kv rest "name")
      let present ← boolOf? (← kv rest "present")
      some (match queryWriteStatus (fun s => s.splitOn "/") (fun _ _ => present) name with
        | some (c, complete) => s!"ok committed={c} complete={if complete then 1 else 0}"
        | none => "err")
  | "bs.read" :: rest => do
      -- bs.read name=<hex> off=N limit=N present=0|1 msgs=<n1,n2,…|->  (sizes of the messages the reader produced)
      let name ← hexToString? (← kv rest "name")
      let off ← parseInt? (← kv rest "off")
      let limit ← parseInt? (← kv rest "limit")
      let present ← boolOf? (← kv rest "present")
      let ms := (← kv rest "msgs")
      let reads ← if ms == "-" then some [] else (ms.splitOn ",").mapM (fun t => t.toNat?)
      let pre := readPre (fun s => s.splitOn "/") (fun _ _ => present) name off limit
      some (match pre with
        | .invalidArgument => "InvalidArgument"
        | .outOfRange => "OutOfRange"
        | .notFound => "NotFound"
        | .empty => "OK delivered=0"
        | .emptyZstd => "OK delivered=9"
        | .stream =>
          let r := sendLoop (limit != 0) limit reads
          s!"{if r.2 then "OK" else "OutOfRange"} delivered={r.1}")
  | "bs.write" :: rest => do
      let max ← parseInt? (← kv rest "max")
      let present ← boolOf? (← kv rest "present")
      let putok ← boolOf? (← kv rest "putok")
      let ms := (← kv rest "msgs")
      let msgs ← if ms == "-" then some [] else (ms.splitOn ",").mapM (fun t =>
        match t.splitOn ":" with
        | [n, off, len, fin] => do
            some ({ name := (← hexToString? n), offset := (← parseInt? off), len := (← len.toNat?), finish := (← boolOf? fin) } : WMsg)
        | _ => none)
      some (match writeRPC (fun s => s.splitOn "/") max (fun _ _ => present) putok msgs with
        | .ok c => s!"ok {c}"
        | .err => "err")
  | _ => none

end Driver
