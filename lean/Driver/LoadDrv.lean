import BR.Model.Load
import Driver.Util
import Driver.DiskDrv
namespace Driver
open BR.Load BR.Lru

def kindOf? (s : String) : Option BR.Disk.Kind :=
  if s == "ac" then some .ac else if s == "cas" then some .cas else if s == "raw" then some .raw else none

/-- `load.run max=M files=<layout>:<kind>:<name>:<length>:<atime>,…` -/
def loadStep' (toks : List String) : Option String :=
  match toks with
  | "load.run" :: rest => do
      let max ← parseInt? (← kv rest "max")
      let spec ← kv rest "files"
      let items := if spec == "-" then [] else spec.splitOn ","
      let fs ← items.mapM (fun t =>
        match t.splitOn ":" with
        | [lay, k, name, len, atm] => do
          let layout ← (if lay == "v2" then some Layout.v2 else if lay == "v1" then some Layout.v1 else if lay == "v0" then some Layout.v0 else none)
          some ({ layout := layout, kind := (← kindOf? k), name := name, length := (← parseInt? len), atime := (← parseInt? atm) } : DirFile)
        | _ => none)
      match scanAll fs with
      | none => some "error"
      | some scanned =>
        let r := load max 0 scanned
        let order := r.1.order.map (fun e => e.key)
        let files := sortStrings (r.1.order.map (fun e => BR.Disk.elementPath e.key e.val))
        some s!"order={showList order} cur={r.1.cur} unc={r.1.unc} n={r.1.order.length} files={showList files}"
  | _ => none

end Driver
