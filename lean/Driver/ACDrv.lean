import BR.Model.AC
import Driver.Util
import Driver.BlobDrv
namespace Driver
open BR.AC

def unTilde (s : String) : String := if s == "~" then "" else s

def parseDG (s : String) : Option (Option Digest) :=
  if s == "nil" then some none
  else match s.splitOn ":" with
    | [h, sz] => do some (some { hash := unTilde h, size := (← parseInt? sz) })
    | _ => none

def parseListOf {α} (f : String → Option α) (s : String) : Option (List α) :=
  if s == "-" then some [] else (s.splitOn ",").mapM f

def parseOFile (s : String) : Option (Option OutputFile) :=
  if s == "nil" then some none
  else match s.splitOn "|" with
    | [p, dg, c] => do some (some { path := unTilde p, digest := (← parseDG dg), hasContents := (← boolOf? c) })
    | _ => none

def parseDir (s : String) : Option (Option OutputDir) :=
  if s == "nil" then some none
  else match s.splitOn "|" with
    | [p, dg] => do some (some { path := unTilde p, treeDigest := (← parseDG dg) })
    | _ => none

def parseSym (s : String) : Option (Option Symlink) :=
  if s == "nil" then some none
  else match s.splitOn "|" with
    | [p, t] => some (some { path := unTilde p, target := unTilde t })
    | _ => none

def parseAR (toks : List String) : Option ActionResult := do
  let files ← parseListOf parseOFile (← kv toks "files")
  let dirs ← parseListOf parseDir (← kv toks "dirs")
  let fs ← parseListOf parseSym (← kv toks "fsyms")
  let ss ← parseListOf parseSym (← kv toks "syms")
  let ds ← parseListOf parseSym (← kv toks "dsyms")
  let so ← parseDG (← kv toks "stdout")
  let se ← parseDG (← kv toks "stderr")
  some { files := files, dirs := dirs, fileSymlinks := fs, symlinks := ss, dirSymlinks := ds, stdoutDigest := so, stderrDigest := se }

def showVErr : VErr → String
  | .nilFile => "nilFile" | .emptyPath => "emptyPath" | .absPath => "absPath" | .nilDigest => "nilDigest"
  | .negSize => "negSize" | .badHash => "badHash" | .nilDir => "nilDir" | .absDirPath => "absDirPath"
  | .nilTreeDigest => "nilTreeDigest" | .nilSymlink => "nilSymlink" | .emptySymPath => "emptySymPath"
  | .emptySymTarget => "emptySymTarget" | .absSymPath => "absSymPath"

def parseNodes (s : String) : Option (List FileNode) :=
  if s == "" then some [] else (s.splitOn ";").mapM (fun x => do some { digest := (← parseDG x) })

/-- `HASH:SIZE@root/child1/child2` -/
def parseTreeTok (s : String) : Option (Digest × Tree) :=
  match s.splitOn "@" with
  | [d, rest] => do
      let dg ← (← parseDG d)
      match rest.splitOn "/" with
      | [] => none
      | r :: cs => do
          let root ← parseNodes r
          let children ← cs.mapM parseNodes
          some (dg, { rootFiles := root, childFiles := children })
  | _ => none

def acStep (toks : List String) : Option String :=
  match toks with
  | "ac.validate" :: rest => do
      let ar ← parseAR rest
      some (match validate ar with | none => "ok" | some e => "err=" ++ showVErr e)
  | "ac.lookup" :: rest => do
      let ar ← parseAR rest
      let pres ← parseListOf (fun s => do let d ← parseDG s; d) (← kv rest "present")
      let trees ← (rest.filter (·.startsWith "tree=")).mapM (fun t => parseTreeTok (t.drop 5).toString)
      let treeOf : Digest → Option Tree := fun d => (trees.find? (fun p => p.1 == d)).map Prod.snd
      let present : Present := fun d => (d.size == 0 && d.hash == "e3b0c44298fc1c149afbf4c8996fb92427ae41e4649b934ca495991b7852b855") || pres.contains d
      some (match lookup present ar treeOf with | .hit => "hit" | .miss => "miss" | .err => "err")
  | _ => none

end Driver
