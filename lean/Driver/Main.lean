import Driver.LruDrv
import Driver.BlobDrv
import Driver.DiskDrv
import Driver.AuthDrv
import Driver.ACDrv
import Driver.ProtoDrv
import Driver.FMDrv
import Driver.CfgDrv
import Driver.LoadDrv
import Driver.ConcDrv
import Driver.InlineDrv
/-!
Line-protocol driver over the executable models (DESIGN.md Appendix B).
One operation per input line, one result line per operation.  Core Lean only, so that it links
as a `lean_exe`.
-/
open Driver

structure DState where
  lru : BR.Lru.Lru := BR.Lru.init 0 0
  disk : BR.Disk.Disk := BR.Disk.init { mode := .zstd, maxBlobSize := 0, maxProxyBlobSize := 0, hasProxy := false } 0 0

def dispatch (s : DState) (line : String) : DState × String :=
  let toks := (line.trimAscii.toString.splitOn " ").filter (· ≠ "")
  match toks with
  | [] => (s, "")
  | t :: _ =>
    if t.startsWith "#" then (s, line.trimAscii.toString)
    else if t.startsWith "lru." then
      match lruStep s.lru toks with
      | some (l, out) => ({ s with lru := l }, out)
      | none => (s, "bad-op")
    else if t.startsWith "disk." then
      match diskStep s.disk toks with
      | some (d, out) => ({ s with disk := d }, out)
      | none => (s, "bad-op")
    else if t.startsWith "url." || t.startsWith "bs." then
      match protoStep toks with
      | some out => (s, out)
      | none => (s, "bad-op")
    else if t.startsWith "conc." then
      match concStep toks with
      | some out => (s, out)
      | none => (s, "bad-op")
    else if t.startsWith "load." then
      match loadStep' toks with
      | some out => (s, out)
      | none => (s, "bad-op")
    else if t.startsWith "cfg." then
      match cfgStep toks with
      | some out => (s, out)
      | none => (s, "bad-op")
    else if t.startsWith "fm." then
      match fmStep toks with
      | some out => (s, out)
      | none => (s, "bad-op")
    else if t.startsWith "acinl." then
      match inlineStep toks with
      | some out => (s, out)
      | none => (s, "bad-op")
    else if t.startsWith "ac." then
      match acStep toks with
      | some out => (s, out)
      | none => (s, "bad-op")
    else if t.startsWith "auth." then
      match authStep toks with
      | some out => (s, out)
      | none => (s, "bad-op")
    else if t.startsWith "blob." then
      match blobStep toks with
      | some out => (s, out)
      | none => (s, "bad-op")
    else (s, "bad-op")

partial def loop (hin : IO.FS.Stream) (hout : IO.FS.Stream) (s : DState) : IO Unit := do
  let line ← hin.getLine
  if line.isEmpty then return ()
  let (s', out) := dispatch s line
  hout.putStrLn out
  loop hin hout s'

def main : IO Unit := do
  let hin ← IO.getStdin
  let hout ← IO.getStdout
  loop hin hout {}
  hout.flush
