import BR.Model.Lru
import Driver.Util
namespace Driver
open BR.Lru

def showLru (l : Lru) : String :=
  s!"cur={l.cur} res={l.res} unc={l.unc} n={l.order.length} q={l.qsize} order=" ++
    showList (l.order.reverse.map (fun e => s!"{e.key}:{e.id}:{e.val.size}:{e.val.sizeOnDisk}")) ++
    " queue=" ++ showList (l.queue.map (fun p => s!"{p.1}:{p.2.sizeOnDisk}:{p.2.random}"))

def showErr : Option Err → String
  | none => "ok"
  | some .badRequest => "e400"
  | some .insufficientReserved => "e507r"
  | some .insufficientHard => "e507h"
  | some .internal => "e500"

def lruStep (l : Lru) (toks : List String) : Option (Lru × String) :=
  match toks with
  | ["lru.new", m, h] => do
      let m ← parseInt? m; let h ← parseInt? h
      let l' := init m h
      some (l', "new " ++ showLru l')
  | ["lru.add", k, sz, od, rnd, lg] => do
      let sz ← parseInt? sz; let od ← parseInt? od; let lg ← boolOf? lg
      let (l', o) := add l k { size := sz, sizeOnDisk := od, random := rnd, legacy := lg }
      let os := match o with | .ok => "ok" | .refused => "refused" | .stuck => "stuck"
      some (l', s!"add={os} " ++ showLru l')
  | ["lru.get", k] =>
      let (l', o) := get l k
      let os := match o with
        | some e => s!"hit:{e.id}:{e.val.size}:{e.val.sizeOnDisk}:{e.val.random}:{if e.val.legacy then 1 else 0}"
        | none => "miss"
      some (l', s!"get={os} " ++ showLru l')
  | ["lru.rmkey", k] => let l' := removeKey l k; some (l', "rmkey " ++ showLru l')
  | ["lru.rmelem", id] => do
      let id ← id.toNat?
      let l' := removeElemId l id
      some (l', "rmelem " ++ showLru l')
  | ["lru.reserve", n] => do
      let n ← parseInt? n
      let (l', o) := reserve l n
      some (l', s!"reserve={showErr o} " ++ showLru l')
  | ["lru.unreserve", n] => do
      let n ← parseInt? n
      let (l', o) := unreserve l n
      some (l', s!"unreserve={if o then "ok" else "fail"} " ++ showLru l')
  | ["lru.drain"] =>
      let l' := drainAll l
      some (l', "drain=" ++ showList (l.queue.map (fun p => s!"{p.1}:{p.2.random}")) ++ " " ++ showLru l')
  | _ => none

end Driver
