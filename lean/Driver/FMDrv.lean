import BR.Model.FindMissing
import Driver.Util
import Driver.BlobDrv
namespace Driver
open BR.FindMissing

/-- `fm.find batch=20 maxproxy=N proxy=0|1 digests=<tok>:<size>:<local>:<proxy>,...`
    local: -1 absent, otherwise the logical size of the local entry with that hash; `E` is the empty blob's hash.
    Digest i gets the hash "h<i>" (duplicates: `d<j>` repeats digest j). -/
def fmStep (toks : List String) : Option String :=
  match toks with
  | "fm.find" :: rest => do
      let batch ← (← kv rest "batch").toNat?
      let maxp ← parseInt? (← kv rest "maxproxy")
      let px ← boolOf? (← kv rest "proxy")
      let spec ← kv rest "digests"
      let items := if spec == "-" then [] else spec.splitOn ","
      let parsed ← items.mapM (fun t =>
        match t.splitOn ":" with
        | [h, sz, l, p] => do some (h, (← parseInt? sz), (← parseInt? l), p)
        | _ => none)
      let ds : List Digest := parsed.map (fun (h, sz, _, _) => { hash := if h == "E" then emptySha256 else h, size := sz })
      let idx : Index := fun h => (parsed.find? (fun (h', _, _, _) => h' == h)).bind (fun (_, _, l, _) =>
        if l ≥ 0 then some l else none)
      -- back-end answer per digest: "-" absent, otherwise the size it reports (-1: it cannot tell)
      let has : Digest → Option Int := fun d => (parsed.find? (fun (h', _, _, _) => h' == d.hash)).bind (fun (_, _, _, p) =>
        if p == "-" then none else parseInt? p)
      let proxy : Proxy := if px then some has else none
      let missing := findMissing batch (fun _ => idx) proxy maxp ds
      some ("missing=" ++ showList (missing.map (fun d => if d.hash == emptySha256 then "E" else d.hash)) ++
        s!" failfast={if failFastMiss batch (fun _ => idx) proxy maxp ds then "miss" else "ok"}")
  | _ => none

end Driver
