/- helpers for the line protocol -/
namespace Driver

def parseInt? (s : String) : Option Int :=
  if s.startsWith "-" then (s.drop 1).toNat?.map (fun n => - (Int.ofNat n)) else s.toNat?.map Int.ofNat

def showList (xs : List String) : String := ",".intercalate xs

def boolOf? (s : String) : Option Bool :=
  if s == "1" then some true else if s == "0" then some false else none

def hexDigit? (c : Char) : Option Nat :=
  if '0' ≤ c ∧ c ≤ '9' then some (c.toNat - '0'.toNat)
  else if 'a' ≤ c ∧ c ≤ 'f' then some (c.toNat - 'a'.toNat + 10)
  else none

def hexToBytes? (s : String) : Option (List Nat) :=
  let rec go : List Char → List Nat → Option (List Nat)
    | [], acc => some acc.reverse
    | [_], _ => none
    | a :: b :: rest, acc => do
      let x ← hexDigit? a
      let y ← hexDigit? b
      go rest ((x * 16 + y) :: acc)
  go s.toList []

def hexChar (n : Nat) : Char := if n < 10 then Char.ofNat (48 + n) else Char.ofNat (87 + n)

def bytesToHex (bs : List Nat) : String :=
  String.mk (bs.foldr (fun b acc => hexChar (b / 16) :: hexChar (b % 16) :: acc) [])

end Driver
