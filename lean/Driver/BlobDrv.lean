import BR.Model.Toy
import Driver.Util
namespace Driver
open BR.CasBlob

def genBytes (a m c len : Nat) : Bytes :=
  (List.range len).map (fun i => (a + i * m + (i / 256) * c) % 256)

def sum32 (b : Bytes) : Nat := b.foldl (fun h x => (h * 31 + x + 1) % 4294967296) 7

partial def parseData (s : String) : Option Bytes := do
  let parts := s.splitOn "+"
  let mut acc : Bytes := []
  for p in parts do
    let fs := p.splitOn ":"
    match fs with
    | ["hex", h] => acc := acc ++ (← hexToBytes? h)
    | ["hex"] => pure ()
    | ["gen", a, m, c, len] =>
        acc := acc ++ genBytes (← a.toNat?) (← m.toNat?) (← c.toNat?) (← len.toNat?)
    | ["zero", len] => acc := acc ++ List.replicate (← len.toNat?) 0
    | _ => none
  return acc

def toyH (ok : Bool) (_ : Bytes) : String := if ok then "H" else "X"

/-- file spec: `w;<size>;<dataspec>` (final image of a successful toy write) or a data spec -/
def parseFile (s : String) : Option Bytes :=
  match s.splitOn ";" with
  | ["w", size, d] => do
      let size ← parseInt? size
      let d ← parseData d
      let r := writeAndClose Toy8.codec (toyH true) defaultChunkSize { data := d, fault := false } size "H"
      r.images.getLast?
  | [d] => parseData d
  | _ => none

def kv (toks : List String) (k : String) : Option String :=
  toks.findSome? (fun t => if t.startsWith (k ++ "=") then some (t.drop (k.length + 1)).toString else none)

def showWErr : WErr → String
  | .badSize => "badsize" | .shortRead => "short" | .tooMuch => "toomuch" | .trailing => "trailing" | .hash => "hash"

def showRes {α} (f : α → String) : Res α → String
  | .ok a => "ok " ++ f a
  | .err c => s!"err={c}"
  | .panic => "panic"

def blobStep (toks : List String) : Option String :=
  match toks with
  | "blob.write" :: rest => do
      let size ← parseInt? (← kv rest "size")
      let d ← parseData (← kv rest "data")
      let fault ← boolOf? (← kv rest "fault")
      let hashok ← boolOf? (← kv rest "hashok")
      let r := writeAndClose Toy8.codec (toyH hashok) defaultChunkSize { data := d, fault := fault } size "H"
      let file := r.images.getLast?.getD []
      let res := match r.result with
        | .ok n => s!"ok ret={n}"
        | .error e => "err=" ++ showWErr e
      some s!"{res} len={file.length} sum={sum32 file}"
  | "blob.readraw" :: rest => do
      let file ← parseFile (← kv rest "file")
      let exp ← parseInt? (← kv rest "exp")
      let off ← parseInt? (← kv rest "off")
      some (showRes (fun (p : Bytes × Bool) => s!"len={p.1.length} sum={sum32 p.1} clean={if p.2 then 1 else 0}")
        (readRaw Toy8.codec file exp off))
  | "blob.readzstd" :: rest => do
      let file ← parseFile (← kv rest "file")
      let exp ← parseInt? (← kv rest "exp")
      let off ← parseInt? (← kv rest "off")
      some (showRes (fun (p : Bytes) => s!"len={p.length} sum={sum32 p}") (readZstd Toy8.codec file exp off))
  | "blob.parse" :: rest => do
      let file ← parseFile (← kv rest "file")
      some (showRes (fun (h : Header) => s!"usize={h.uncompressedSize} comp={h.compression} cs={h.chunkSize} offs={showList (h.chunkOffsets.map toString)}")
        (parseHeader file))
  | "blob.xsize" :: rest => do
      let s ← parseData (← kv rest "stream")
      some (showRes (fun (n : Int) => s!"size={n}") (extractLogicalSize s))
  | _ => none

end Driver
