import BR.Model.Config
import Driver.Util
import Driver.DiskDrv
namespace Driver
open BR.Config

def cfgHexToString? (h : String) : Option String :=
  if h == "-" then some "" else (hexToBytes? h).map (fun bs => String.ofList (bs.map (fun b => Char.ofNat b)))

def stringToHex (s : String) : String :=
  if s.isEmpty then "-" else bytesToHex (s.toUTF8.toList.map (·.toNat))

def parseSetting (tok : String) : Option (Key × Val) :=
  match tok.splitOn "|" with
  | [sec, key, t, v] => do
    let val ←
      if t == "s" then (cfgHexToString? v).map Val.s
      else if t == "i" then (parseInt? v).map Val.i
      else if t == "b" then (boolOf? v).map Val.b
      else if t == "d" then (parseInt? v).map Val.d
      else none
    some ((if sec == "-" then "" else sec, key), val)
  | _ => none

def showVal : Val → String
  | .s x => "s:" ++ stringToHex x
  | .i x => "i:" ++ toString x
  | .b x => if x then "b:1" else "b:0"
  | .d x => "d:" ++ toString x
  | .nil => "nil"

/-- `url.URL.String()` prints the scheme in lower case -/
def lowerScheme (u : String) : String :=
  match u.splitOn ":" with
  | sch :: rest@(_ :: _) => ":".intercalate (sch.toLower :: rest)
  | _ => u

def showCfg : Option Cfg → String
  | none => "error"
  | some c =>
    let lines := c.map (fun e => e.owner ++ "." ++ e.field ++ "=" ++
      showVal (match e.field, e.val with
        | "BaseURL", .s u => .s (lowerScheme u)
        | _, v => v))
    "ok{" ++ ";".intercalate (sortStrings lines) ++ "}"

/-- `cfg.eval <sec>|<key>|<type>|<value> …` → both front ends' start-up results -/
def cfgStep (toks : List String) : Option String :=
  match toks with
  | "cfg.eval" :: rest => do
      let a ← rest.mapM parseSetting
      let f := showCfg (startFlags toString a)
      let y := showCfg (startYaml toString a)
      some s!"flags={f} env={f} yaml={y} cmp={if comparableB a then 1 else 0}"
  | _ => none

end Driver
