import BR.Model.Disk
import BR.Model.Toy
import Driver.BlobDrv
namespace Driver
open BR.Disk BR.CasBlob

def showCode : Code → String
  | .ok => "ok" | .miss => "miss" | .e400 => "e400" | .e500 => "e500" | .e507 => "e507" | .stuck => "stuck"

def insertSorted (x : String) : List String → List String
  | [] => [x]
  | y :: ys => if x ≤ y then x :: y :: ys else y :: insertSorted x ys

def sortStrings (xs : List String) : List String := xs.foldl (fun acc x => insertSorted x acc) []

/-- what is deterministic right after an operation (the background remover may or may not have run) -/
def showDisk (d : Disk) : String :=
  s!"cur={d.lru.cur} res={d.lru.res} unc={d.lru.unc} n={d.lru.order.length} order=" ++
    showList (d.lru.order.reverse.map (fun e => e.key)) ++ s!" puts={d.proxyPuts.length}"

/-- full state, printed when the remover is known to be idle (`disk.drain`) or held (`disk.ls`) -/
def showDiskFull (d : Disk) : String :=
  showDisk d ++ s!" q={d.lru.qsize} files=" ++
    showList (sortStrings (d.files.map (fun p => s!"{p.1}:{p.2.length}")))

def parseKind? : String → Option Kind
  | "ac" => some .ac | "cas" => some .cas | "raw" => some .raw | _ => none

def parsePG (s : String) : Option ProxyGet :=
  match s.splitOn ";" with
  | ["none"] => some .notFound
  | ["err"] => some .error
  | ["ok", d, fs, fault] => do
      let d ← parseData d
      let fs ← parseInt? fs
      let fault ← boolOf? fault
      some (.found { data := d, fault := fault } fs)
  | _ => none

def diskStep (d : Disk) (toks : List String) : Option (Disk × String) :=
  match toks with
  | "disk.new" :: rest => do
      let mode ← match (← kv rest "mode") with | "zstd" => some Mode.zstd | "identity" => some Mode.identity | _ => none
      let max ← parseInt? (← kv rest "max")
      let hard ← parseInt? (← kv rest "hard")
      let mb ← parseInt? (← kv rest "maxblob")
      let mp ← parseInt? (← kv rest "maxproxy")
      let px ← boolOf? (← kv rest "proxy")
      let d' := BR.Disk.init { mode := mode, maxBlobSize := mb, maxProxyBlobSize := mp, hasProxy := px } max hard
      some (d', "new " ++ showDisk d')
  | "disk.put" :: rest => do
      let kind ← parseKind? (← kv rest "kind")
      let hash ← kv rest "hash"
      let size ← parseInt? (← kv rest "size")
      let data ← parseData (← kv rest "data")
      let fault ← boolOf? (← kv rest "fault")
      let hashok ← boolOf? (← kv rest "hashok")
      let rnd ← kv rest "rnd"
      let H : Bytes → String := fun _ => if hashok then hash else "x"
      let (d', c) := put Toy8.codec H d kind hash size { data := data, fault := fault } rnd
      some (d', s!"put={showCode c} " ++ showDisk d')
  | "disk.get" :: rest => do
      let kind ← parseKind? (← kv rest "kind")
      let hash ← kv rest "hash"
      let size ← parseInt? (← kv rest "size")
      let off ← parseInt? (← kv rest "off")
      let z ← boolOf? (← kv rest "zstd")
      let pg ← parsePG (← kv rest "pg")
      let rnd ← kv rest "rnd"
      let (d', o) := get Toy8.codec d kind hash size off z pg rnd
      let os := match o with
        | .hit h => s!"hit len={h.data.length} sum={sum32 h.data} size={h.size} clean={if h.clean then 1 else 0}"
        | .miss => "miss"
        | .err c => showCode c
      some (d', s!"get={os} " ++ showDisk d')
  | "disk.contains" :: rest => do
      let kind ← parseKind? (← kv rest "kind")
      let hash ← kv rest "hash"
      let size ← parseInt? (← kv rest "size")
      let pc ← match (← kv rest "pc").splitOn ";" with
        | [b, s] => do some ((← boolOf? b), (← parseInt? s))
        | _ => none
      let (d', b, s) := contains d kind hash size pc
      some (d', s!"contains={if b then 1 else 0};{s} " ++ showDisk d')
  | "disk.damage" :: rest => do
      let kind ← parseKind? (← kv rest "kind")
      let hash ← kv rest "hash"
      let how ← (← kv rest "how").toNat?
      let d' := damage d kind hash how
      some (d', "damage " ++ showDisk d')
  | ["disk.drain"] =>
      let d' := drain d
      some (d', "drain " ++ showDiskFull d')
  | ["disk.ls"] => some (d, "ls " ++ showDiskFull d)
  | _ => none

end Driver
