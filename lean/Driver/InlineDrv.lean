import BR.Model.Inline
import Driver.Util
import Driver.BlobDrv
namespace Driver
open BR.Inline

/-- contents in the line protocol: a token standing for the SHA-256 and the length -/
abbrev Tok := String × Int

def tokOps : Ops Tok := { len := fun a => a.2, hash := fun a => a.1 }

def parseTok (s : String) : Option (Option Tok) :=
  if s == "-" then some none
  else match s.splitOn ":" with
    | [h, n] => do some (some (h, (← parseInt? n)))
    | _ => none

/-- `acinl.run max=N fields=<want>|<putok>|<raw tok:len or ->|<digest tok:size or ->,... cas=<tok:size>,...`
    answers `raw=<len>|dig=<tok:size or ->,... sofar=<n>` or `error` -/
def inlineStep (toks : List String) : Option String :=
  match toks with
  | "acinl.run" :: rest => do
      let max ← parseInt? (← kv rest "max")
      let fspec ← kv rest "fields"
      let cspec ← kv rest "cas"
      let items ← (if fspec == "-" then some [] else (fspec.splitOn ",").mapM (fun t =>
        match t.splitOn "|" with
        | [w, p, r, d] => do
            let raw ← parseTok r
            let dg ← parseTok d
            some ((← boolOf? w), (← boolOf? p), ({ raw := raw, dig := dg.map (fun x => ⟨x.1, x.2⟩) } : Field Tok))
        | _ => none))
      let cas : Cas Tok ← (if cspec == "-" then some [] else (cspec.splitOn ",").mapM (fun t => do
        let x ← parseTok t
        let y ← x
        some ((⟨y.1, y.2⟩ : Digest), y)))
      match pipeline tokOps max items 0 cas with
      | none => some "error"
      | some (fs, sf, _) =>
        let show1 := fun (f : Field Tok) =>
          let r := match f.raw with | some a => toString a.2 | none => "0"
          let d := match f.dig with | some d => s!"{d.hash}:{d.size}" | none => "-"
          s!"raw={r}|dig={d}"
        some (showList (fs.map show1) ++ s!" sofar={sf}")
  | _ => none

end Driver
