"""Per-property configuration of bin/check: Lean module holding the property theorems and the
harness runs (correspondence + direct oracles) that tie the models to /repo."""
import json
import os

ALLOWED_AXIOMS = {"propext", "Classical.choice", "Quot.sound"}

LRU = dict(pkg="./cache/disk", test="TestVerifLruCorrespondence", name="lru", diff=True)
F14 = dict(pkg="./cache/disk", test="TestVerifScenarioTwoReadersCorrupt", name="f14", diff=False)

BLOB = dict(pkg="./cache/disk/casblob", test="TestVerifBlobCorrespondence", name="blob", diff=True, also=["C01", "C14", "C02", "C20"])
BLOBREAL = dict(pkg="./cache/disk/casblob", test="TestVerifBlobRealCodec", name="blobreal", diff=False)

DISK = dict(pkg="./cache/disk", test="TestVerifDiskCorrespondence", name="disk", diff=True)

AUTH = dict(pkg=".", test="TestVerifAuthExhaustive", name="auth", diff=True)

SRVWRITE = dict(pkg="./server", test="TestVerifServerWritePaths", name="srvwrite", diff=False)

SRVAC = dict(pkg="./server", test="TestVerifServerActionCache", name="srvac", diff=True)
SRVACDEPS = dict(pkg="./server", test="TestVerifServerACDeps", name="srvacdeps", diff=True)
SRVKEYS = dict(pkg="./server", test="TestVerifServerKeyspaces", name="srvkeys", diff=False)
PARSERS = dict(pkg="./server", test="TestVerifParsers", name="parsers", diff=True)
BYTESTREAM = dict(pkg="./server", test="TestVerifByteStream", name="bytestream", diff=True)
HANDLERS = dict(pkg="./server", test="TestVerifHandlersNil", name="handlers", diff=False)

FINDMISSING = dict(pkg="./cache/disk", test="TestVerifFindMissing", name="findmissing", diff=True)
FINDMISSING_LIVE = dict(FINDMISSING, diff=False, only_sigs=["fm.hang"])   # C14 borrows the run for its liveness bound only
FMQUEUE = dict(pkg="./cache/disk", test="TestVerifFindMissingStalledBackend", name="fmqueue", diff=False)
FAILFASTPARK = dict(pkg="./cache/disk", test="TestVerifFailFastParkedWorker", name="failfastpark", diff=False)
CANCELLED = dict(pkg="./cache/disk", test="TestVerifCancelledRequests", name="cancelled", diff=False)
INTERLEAVED = dict(pkg="./cache/disk", test="TestVerifInterleavedReaders", name="interleaved", diff=False)
LOOKUPRACE = dict(pkg="./cache/disk", test="TestVerifConcurrentLookups", name="lookuprace", diff=False, race="always", timeout=400)
FFRACE = dict(pkg="./cache/disk", test="TestVerifFailFastManyMisses", name="ffrace", diff=False, race="always", timeout=400)
FAILFAST = dict(pkg="./cache/disk", test="TestVerifFailFastRace", name="failfast", diff=False)

CONFIG = dict(pkg="./config", test="TestVerifConfig", name="config", diff=True)

LOAD = dict(pkg="./cache/disk", test="TestVerifLoad", name="load", diff=True, also=["C09", "C04", "C15", "C20"])

CRASH = dict(pkg="./cache/disk", test="TestVerifCrash", name="crash", diff=False)

SCHED = dict(pkg="./cache/disk", test="TestVerifSchedules", name="sched", diff=True, race=True, also=["C07", "C03", "C04"])

SRVHARD = dict(pkg="./server", test="TestVerifServerHardLimit", name="srvhard", diff=False)
SLOWPATH = dict(pkg="./cache/disk", test="TestVerifSlowPathAcrossModes", name="slowpath", diff=False)
HARDLAG = dict(pkg="./cache/disk", test="TestVerifHardLimitBacklog", name="hardlag", diff=False)
SRVBATCH = dict(pkg="./server", test="TestVerifServerBatchMany", name="srvbatch", diff=False)
SRVINLINE = dict(pkg="./server", test="TestVerifServerInlining", name="srvinline", diff=True)
SRVWRITETHROUGH = dict(pkg="./server", test="TestVerifServerWriteThrough", name="srvwritethrough", diff=False)
UPLOADLEAK = dict(pkg="./server", test="TestVerifServerRefusedUploadLeaks", name="uploadleak", diff=False)
SRVBACKENDWRITE = dict(pkg="./server", test="TestVerifServerWriteExistingInBackend", name="srvbackendwrite", diff=False)
SRVNEGSIZE = dict(pkg="./server", test="TestVerifServerNegativeSizes", name="srvnegsize", diff=False)
SRVINLINEFOREIGN = dict(pkg="./server", test="TestVerifServerInliningForeignDigest", name="srvinlineforeign", diff=True)
SRVPOOL = dict(pkg="./server", test="TestVerifServerFailedReadThenOverlappingReads", name="srvpool", diff=False)
SRVPROXYLIMIT = dict(pkg="./server", test="TestVerifServerProxyLimit", name="srvproxylimit", diff=False)
SRVRTHARD = dict(pkg="./server", test="TestVerifServerReadThroughHardLimit", name="srvrthard", diff=False)

GRPCPROXY = dict(pkg="./cache/grpcproxy", test="TestVerifGrpcProxyRoundTrip", name="grpcproxy", diff=False)

S3PROXY = dict(pkg="./cache/s3proxy", test="TestVerifS3RoundTrip", name="s3proxy", diff=False)
AZBLOB = dict(pkg="./cache/azblobproxy", test="TestVerifAzblobRoundTrip", name="azblob", diff=False)
HTTPLEAK = dict(pkg="./cache/httpproxy", test="TestVerifHTTPProxyMissKeepsNoConnection", name="httpleak", diff=False)
HTTPPROXY = dict(pkg="./cache/httpproxy", test="TestVerifHTTPProxyRoundTrip", name="httpproxy", diff=False)

SRVREAD = dict(pkg="./server", test="TestVerifServerReadPaths", name="srvread", diff=True)

FDLEAK = dict(pkg="./server", test="TestVerifServerFdLeaks", name="fdleak", diff=False)

USE = dict(pkg="./cache/disk", test="TestVerifUseRefreshesRecency", name="use", diff=False)

SRVLIMIT = dict(pkg="./server", test="TestVerifServerBlobLimits", name="srvlimit", diff=False)

READTHROUGH = dict(pkg="./cache/disk", test="TestVerifReadThroughMatrix", name="readthrough", diff=False)

COMMON_TB = [
    "goroutine scheduling, sync.Mutex and the file system are modelled (atomic lock regions, process-visible file state), not verified",
]
NOTE = ("Lean 4 kernel; hand-written model tied to the code by the regenerated Gen/Bridge facts and by the "
        "differential correspondence run on every check; ")
TECH = "Lean 4 theorems over an executable model + regenerated Gen/Bridge facts + differential correspondence with the Go code"

PROPS = {
    "C03": dict(
        lean="BR.Props.C03", runs=[LRU, F14, DISK, SCHED, CANCELLED], trusted_base=COMMON_TB,
        assumptions=["item sizes and max_size below 2^62 so that roundUp4k and Add's additions do not wrap int64"],
        level_text="Invariant (currentSize = reserved + sum of 4 KiB-rounded entries <= maxSize, logical total, entry count) proved by induction for every finite sequence of LRU operations of model M1; model checked against SizedLRU op by op.",
        level_note=NOTE + "concurrency enters through the atomic-lock-region assumption.", technique=TECH),
    "C05": dict(
        lean="BR.Props.C05", runs=[LRU, DISK, USE], trusted_base=COMMON_TB, assumptions=[],
        level_text="Theorems on M1: evicted entries are a least-recently-used suffix, no eviction when the item fits, minimal eviction, move-to-front on hits, oversize rejection leaves the state unchanged.",
        level_note=NOTE + "sequential histories.", technique=TECH),
    "C17": dict(
        lean="BR.Props.C17", runs=[LRU, DISK, HARDLAG, SRVHARD, SRVRTHARD], trusted_base=COMMON_TB, assumptions=[],
        level_text="Theorems on M1's Reserve: refusal iff current + backlog + size exceeds the hard limit, refusal leaves the state unchanged, retry succeeds after the backlog drained, no refusal when the option is off. Server-level oracle: with the cache filled to the limit every write path (HTTP, BatchUpdateBlobs, ByteStream.Write, UpdateActionResult with inlined blobs, FetchBlob; both storage modes) answers 507 / RESOURCE_EXHAUSTED, stores and evicts nothing, reads keep working. Also on M4/M5: a fetch of unknown size reserves the announced size first and is refused like any other (unknown_size_fetch_refused); under every interleaving the backlog counter equals the bytes of evicted-but-not-unlinked entries, each with its file (conc_backlog_exact, conc_admission_exact). Harness: remover held before each unlink (admission vs bytes measured on disk), every server read path through a back end at the limit, SpliceBlob, FetchBlob with mirrors.",
        level_note=NOTE + "the uint64 sum is modelled exactly.", technique=TECH),
    "C02": dict(
        lean="BR.Props.C02", runs=[BLOB, BLOBREAL, DISK, READTHROUGH, SLOWPATH, SRVREAD, SRVPOOL, SRVBATCH, INTERLEAVED], trusted_base=COMMON_TB + [
            "zstd codecs (klauspost, libzstd) enter the theorems as a parameter satisfying Codec.Lawful; SHA-256 as an opaque function"],
        assumptions=["offset >= 0 (enforced by disk.get before the readers are called)"],
        level_text="Theorems on M2 (casblob): for every conformant file (any chunk size, any frames decoding to the chunks) and every offset below the size, both readers return exactly data[offset:] (raw: the bytes; zstd: a stream decoding to them); the writer's output is conformant; readers are total. ByteStream.Read serves every in-range offset/limit (M10 sendLoop). Harness: every server read path x storage modes x zstd implementations, read-through at every offset, the slow path across storage modes, damaged entries, overlapping reads after a failed one, 2..4 readers (plain/zstd, offsets on and off chunk boundaries) opened before any of them is read with uploads in between.",
        level_note=NOTE + "codec laws are hypotheses (satisfied by a proved toy instance); the real codecs are exercised by the direct oracle only.", technique=TECH),
    "C20": dict(
        lean="BR.Props.C20", runs=[BLOB, BLOBREAL, GRPCPROXY, S3PROXY, HTTPPROXY, AZBLOB, LOAD], trusted_base=COMMON_TB, assumptions=[],
        level_text="Header encode/parse round trip and reader conformance theorems on M2; layout constants, file-name shapes and regexps regenerated from the source and compared by Bridge theorems; files from an independent encoder/reader in the harness; objects stored through the real S3 and HTTP back-end clients into in-process servers must appear under the published names for several prefix shapes and read back unchanged. Also the Azure client against an in-process container (doubled prefix pinned), the gRPC client's resource names with and without a stated size, every statement deriving an object name in the back-end clients pinned by the translator (key_sites_pinned), conformant files with streaming frames and windows up to 32 MiB.",
        level_note=NOTE + "published layout written once in Lean as the specification.", technique=TECH),
    "C01": dict(
        lean="BR.Props.C01", runs=[BLOB, BLOBREAL, DISK, SRVWRITE, SRVBATCH], trusted_base=COMMON_TB + ["SHA-256 as an opaque function H; zstd codec as a parameter"],
        assumptions=[],
        level_text="Theorems on M2/M4: WriteAndClose / Put acknowledge iff the delivered bytes have the declared length and hash and the stream ended cleanly; a rejected upload leaves index and directory unchanged; per-path corollaries for the server front ends. Server oracles: 15 write paths x corruption kinds x sizes x both storage modes; BatchUpdateBlobs requests with several entries and repeated digests.",
        level_note=NOTE + "server paths are tied by the server-level correspondence runs.", technique=TECH),
    "C04": dict(
        lean="BR.Props.C04", runs=[DISK, F14, LOAD, SCHED], trusted_base=COMMON_TB, assumptions=["tempfile.Create returns a name not present in the directory (O_EXCL)"],
        level_text="Invariant on M4 proved for every sequential history with failures injected at every stage: the regular files are exactly the files of indexed entries plus those queued for removal, each with the recorded length; after draining, directory = index.",
        level_note=NOTE + "concurrent histories via the atomic-lock-region assumption (C07).", technique=TECH),
    "C12": dict(
        lean="BR.Props.C12", runs=[DISK, READTHROUGH, GRPCPROXY, S3PROXY, HTTPPROXY, AZBLOB, SRVPROXYLIMIT, SRVWRITETHROUGH], trusted_base=COMMON_TB + ["transport code of the concrete back ends (net/http, grpc, minio, azure SDK) is not modelled"],
        assumptions=["the back end is trusted for content it completely delivers"],
        level_text="Theorems on M4's proxy read-through: a hit carries exactly the back end's bytes with the announced size; every fault (error, not found, short/long stream, wrong or unknown size, oversize) yields a miss or an error, stores nothing and releases the reservation; each accepted upload is forwarded once. Harness: grpc / s3 / http / azblob clients against in-process servers (published names, round trip, sizes stated or not), every front end behind the real http client with a slow back end (write-through survives the request), a second upload under the same AC/RAW key reaches the back end (finding F42), oversize and size-less back-end objects on every server read path.",
        level_note=NOTE + "partial: back-end transport libraries outside the model.", technique=TECH),
    "C18": dict(
        lean="BR.Props.C18", runs=[DISK, SRVLIMIT, SRVPROXYLIMIT], trusted_base=COMMON_TB, assumptions=[],
        level_text="Theorems on M4: Put refuses sizes above max_blob_size with a client error and unchanged state, accepts the limit itself; nothing above max_proxy_blob_size is fetched, cached or reported present on the strength of the back end. Server oracle: limit-1/limit/limit+1 on 14 write paths, compressible and not; oversize and size-less back-end objects on 7 read/existence paths (known finding F17).",
        level_note=NOTE + "handler-level guards tied by server correspondence runs.", technique=TECH),
    "C13": dict(
        lean="BR.Props.C13", runs=[AUTH], trusted_base=["crypto/tls, net/http, grpc-go and go-http-auth implement the handshake / header parsing the model takes as given"],
        assumptions=["LDAP authentication (experimental) is not modelled"],
        level_text="Decision model of the HTTP wrappers / certificate checks and gRPC interceptors; theorems for every configuration, endpoint, credential state and every gRPC method name (universally quantified); the real startHttpServer/startGrpcServer enumerated exhaustively over the whole finite domain against the model.",
        level_note="Lean 4 kernel; readOnlyMethods / health name / registered services regenerated from the source (Bridge.Auth); the correspondence is exhaustive, not sampled.", technique=TECH),
    "C06": dict(
        lean="BR.Props.C06", runs=[SRVACDEPS, FINDMISSING, FAILFAST, FAILFASTPARK, FFRACE], trusted_base=["protobuf decoding of stored ActionResult / Tree blobs is a parameter (treeOf)"], assumptions=[],
        level_text="Theorems on M8: a hit implies every referenced blob (tree blobs, tree root/child files, non-inlined output files, stdout, stderr) is present; absence yields a miss, never an error or partial result; all present yields a hit. Server-level oracle over every subset of absent blobs; the decision compared with the model. Fail-fast walk with the worker that reports the miss parked inside cancel().",
        level_note=NOTE + "the fail-fast presence check is C10's model; recency refresh of dependencies is checked at the disk level.", technique=TECH),
    "C11": dict(
        lean="BR.Props.C11", runs=[SRVAC, SRVACDEPS, SRVINLINE, SRVINLINEFOREIGN], trusted_base=["protobuf / protojson codecs (round-trip law assumed, real ones exercised by the harness)"], assumptions=[],
        level_text="Theorems on M8's validator: each invalid class is rejected wherever it occurs, acceptance iff every component is well formed; validator compared with validate.ActionResult on generated messages; server oracle: rejected => nothing served, accepted => served equal modulo worker name, JSON = proto, latest wins. Read-side inlining (model M8b): contents preserved, 3 MiB budget kept, request honoured when it fits, otherwise by true digest with the bytes in the CAS; conditions and visit order of maybeInline regenerated from the source (Bridge.Inline); GetActionResult compared with the model on generated results around the budget.",
        level_note=NOTE + "the validator's verdicts are compared message by message.", technique=TECH),
    "C14": dict(
        lean="BR.Props.C14", runs=[BLOB, PARSERS, HANDLERS, BYTESTREAM, FDLEAK, UPLOADLEAK, HTTPLEAK, GRPCPROXY, FINDMISSING_LIVE], trusted_base=COMMON_TB + ["third-party decoders, the Go runtime and grpc-go are outside the model"],
        assumptions=["memory exhaustion and real-time hangs cannot be exhibited by the model"],
        level_text="Partial. Theorems: casblob readers total on every byte string, resource-name parsers total, validator and GetTree walk handle absent sub-messages, Write answers every message sequence. Harness: every handler called in-process under recover with absent sub-messages and ill-formed stored blobs; mutated stored files; goroutine/reservation leak oracle. Refused / rejected / aborted uploads on 12 paths and refused SpliceBlob: no handler goroutine, descriptor, reservation or temp file left; descriptor oracle for aborted downloads.",
        level_note=NOTE + "partial: goroutine life cycle, third-party panics and resource exhaustion are checked by oracle only.", technique=TECH),
    "C15": dict(
        lean="BR.Props.C15", runs=[SRVKEYS, PARSERS, DISK, LOAD, HTTPPROXY], trusted_base=["SHA-256 as an opaque function with an explicit no-collision hypothesis"], assumptions=[],
        level_text="Theorems on M3/M4: LookupKey injective in (key space, hash), file paths of different key spaces disjoint, mangled keys equal iff (key, instance) equal, the HTTP path prefix is the gRPC instance name; server oracle over instance names x both front ends x mangling on/off; URL parser compared with the model.",
        level_note=NOTE + "no-collision hypothesis explicit.", technique=TECH),
    "C16": dict(
        lean="BR.Props.C16", runs=[BYTESTREAM, PARSERS, SRVBACKENDWRITE], trusted_base=["grpc-go stream delivery"], assumptions=[],
        level_text="Theorems on M10: early return for existing blobs, failure for non-zero first offset / bad or empty name / over-limit size / more or fewer bytes than declared, success commits exactly the declared size, parsers accept every conformant name with any instance prefix and trailing metadata; the real Write compared with writeRPC on generated message sequences. QueryWriteStatus complete iff present for both name spellings; Write/QueryWriteStatus of a blob only the back end holds (sizes reported or not).",
        level_note=NOTE + "the three-goroutine schedule is abstracted to the message sequence.", technique=TECH),
    "C10": dict(
        lean="BR.Props.C10", runs=[FINDMISSING, FAILFAST, FMQUEUE, SRVNEGSIZE], trusted_base=COMMON_TB, assumptions=[],
        level_text="Theorems on M7 for every batch size and list length: the answer is the request filtered by 'absent locally (or other size) and not vouched for by the back end (or too large for it)', in order with duplicates; present-throughout never reported, absent-throughout reported, empty blob never missing, worker write order irrelevant, fail-fast miss iff something is missing. The real FindMissingCasBlobs compared with the model on generated partitions with concurrent unrelated puts; the final select driven through its yield point. The back end's answer carries the size it reports (none for size-less stores): it vouches only with a size that does not contradict the stated one (backend_vouches_iff). Stalled back end with pool and queue full.",
        level_note=NOTE + "the worker pool's scheduling is abstracted by the order-irrelevance theorem.", technique=TECH),
    "C19": dict(
        lean="BR.Props.C19", runs=[CONFIG], trusted_base=COMMON_TB + ["urfave/cli flag parsing, yaml.v3 decoding, net.SplitHostPort and url.Parse are modelled (typed values; address and scheme grammar re-implemented in Lean), not verified"], assumptions=["proxy URLs are drawn from a family on which url.Parse fails only for a missing scheme"],
        level_text="Theorems on M12 whose field tables are computed from the regenerated flag table, flag wiring, yaml tags and defaults: for every comparable assignment of explicitly given settings the flag/environment front end and the YAML front end yield the identical configuration and verdict; each explicitly given wired setting arrives unchanged in its field on both paths; each invalid class of the property is refused for arbitrary values of all other settings. Generated assignments pushed through the real flag parser, the environment and NewFromYaml and compared with each other and with the model.",
        level_note=NOTE + "third-party parsers are exercised by the correspondence run, not modelled byte by byte.", technique=TECH),
    "C09": dict(
        lean="BR.Props.C09", runs=[LOAD], trusted_base=COMMON_TB + ["os.ReadDir, os.Rename, atime.Get and the file system's access times are modelled (a list of files with distinct integer access times), not verified"], assumptions=["access times of the files are pairwise distinct (sort.Sort is not stable)"],
        level_text="Theorems on M6 (loader) over M1 (index): for every population of files with distinct keys and every max_size the index after restart is the longest most recently accessed tail, in access-time order, of the files that individually fit, everything else is removed, the accounting invariant holds, nothing is evicted when the directory fits; with duplicate keys the invariant holds and every file stays tracked. Generated directories (current layout in both storage modes, v1/v0 layouts, duplicates, lost+found) restarted with the real New() and compared with the model and with direct oracles, followed by a forced eviction.",
        level_note=NOTE + "migration renames and directory scanning are compared on generated populations, not proved.", technique=TECH),
    "C08": dict(
        lean="BR.Props.C08", runs=[CRASH, LOAD], trusted_base=COMMON_TB + ["a kill is modelled as a file-system image between two write calls of the upload (process-kill semantics: completed writes are visible); power loss, fsync and directory-entry durability are not modelled"], assumptions=[],
        level_text="Theorems on M2/M6/M1: every file image a compressed upload can leave at a kill, except the final one of a successful write, is refused by readHeader and so by both readers (absent or complete, for all sizes, chunk sizes and streams); the final image is served identically at every offset; restart on any set of files re-establishes the accounting invariant and keeps every file tracked; a raw file (AC, RAW, uncompressed CAS) is adopted with its current length (F16). The real Put is interrupted at generated stream offsets, at the gate between file completion and index insertion and after the acknowledgement; every image is restarted in both storage modes and read through every path.",
        level_note=NOTE + "partial: power-loss durability is outside the model; torn raw files are the recorded finding F16.", technique=TECH),
    "C07": dict(
        lean="BR.Props.C07", runs=[SCHED, F14, SLOWPATH, SRVPOOL, FAILFASTPARK, FFRACE, LOOKUPRACE, INTERLEAVED], trusted_base=COMMON_TB + ["each index-lock region is taken as atomic and memory as touched only inside lock regions; an open file keeps its content after unlink; tempfile.Create never returns a name in use (O_EXCL): assumptions of model M5, not conclusions"], assumptions=["schedules are interleavings at the verif yield points; finer interleavings inside a lock region are excluded by the mutex"],
        level_text="Theorems on M5 for every schedule of any number of uploads, reads, remover steps and file corruptions: the C03 index invariant holds after every step and exactly the uploads in flight hold reservations (so nothing stays reserved at quiescence); every read that returns data returns the complete bytes of one completed upload to the same key; the files on disk are exactly the files of the tracked entries plus the completed files of uploads that have not committed, with unique names (directory = index at quiescence). The real Put/Get/remover are driven along generated schedules through the yield points (a released segment must reach its next gate or finish) and compared with the model on read results, reservations, entry count and recency order; quiescence oracles for accounting and directory; thorough tier under the race detector. Further theorems: an indexed value is dropped only by Reserve/commit (pressure, overwrite) or by a reader that failed on that very file (acked_entry_kept, stale_reader_cannot_drop = finding F23). Server-level: overlapping reads after failed/limited/cancelled reads; slow path across storage modes. Two runs are built with the race detector in both tiers (fail-fast walk with several digests missing at once: finding F41; eight goroutines of overlapping existence checks, dependency walks, reads and overwrites, followed by a walk of the recency list); readers opened before any is read keep their own bytes (interleaved).",
        level_note=NOTE + "partial: atomicity of lock regions and absence of data races are assumed by the model (race detector on the scheduled run in the thorough tier, on the ffrace and lookuprace runs in both tiers).", technique=TECH),
}

_root = os.path.dirname(os.path.dirname(os.path.abspath(__file__)))
NOT_APPLICABLE = []
for _l in open(os.path.join(_root, "properties.jsonl")):
    _p = json.loads(_l)
    if _p["id"] not in PROPS:
        NOT_APPLICABLE.append(dict(property_id=_p["id"], reason="not claimed yet: its model/check is planned in DESIGN.md section 4 but not built at this commit"))
